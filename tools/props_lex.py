"""C09 (lexer) and C15 (statement splitting): spec/PqlLexer.tla, TraceLex.tla."""
import os
from vlib import REPO

# family -> (quick MaxLen, thorough MaxLen)
LEX_FAMILIES = {
    "lex_numbers": (5, 6),
    "lex_strings": (5, 6),
    "lex_ops": (5, 6),
    "lex_idents": (4, 5),
    "lex_kw": (5, 6),
    "lex_mixed": (2, 3),
}
SPLIT_FAMILIES = {
    "lex_semi": (5, 6),
    "lex_strings": (4, 5),
    "lex_mixed": (2, 3),
}

ASSUME = [
    "TLC 1.8.0 and the CommunityModules Json module",
    "class -> byte concretisation and its inverse in harness/chars.go (checked to round-trip on every case)",
    "hexadecimal -> decimal and float parsing by math/big and strconv (numeric fidelity is outside TLC's 32-bit integers)",
    "error token messages are not compared",
]


def lex_like(ctx, prop, families, trace_count):
    ctx.build_harness()
    thorough = ctx.tier == "thorough"
    # structured inputs from the program generator: sequences of well-formed and broken statements, statements, plants
    progs = []
    for cfg, ov in (("gen_stmtseq", {}), ("gen_statements", {"Bound": 4 if thorough else 3}), ("gen_plant", {}), ("gen_groups", {})):
        progs.append(ctx.tlc("GenProg", cfg, overrides=ov, workers=4, timeout=3000)["out"])
    jobs = []
    for fam, (q, t) in families.items():
        def job(fam=fam, n=(t if thorough else q)):
            info = ctx.tlc("PqlLexer", fam, overrides={"MaxLen": n}, workers=8, timeout=3000)
            ctx.harness("lex-replay", "--property", prop, "--cases", info["out"], "--seed", ctx.seed,
                        "--reps", 5 if thorough else 2, "--out", fam + ".json")
            os.unlink(info["out"])
            return fam
        jobs.append(job)
    ctx.parallel(jobs, width=2)
    for fam in families:
        ctx.load_result(fam + ".json")
    # code -> model: random byte strings and the repository's own queries
    ctx.harness("lex-trace", "--seed", ctx.seed, "--count", trace_count, "--corpus",
                os.path.join(REPO, "testdata/Goldens"), "--programs", ",".join(progs),
                "--trace", "trace.ndjson", "--inputs", "inputs.ndjson")
    for f in progs:
        os.unlink(f)
    vouts = ctx.tlc_trace("TraceLex", "trace_lex", ctx.path("trace.ndjson"), chunks=12)
    ctx.harness("lex-trace-check", "--property", prop, "--inputs", "inputs.ndjson", "--verdicts", ",".join(vouts),
                "--out", "trace.json")
    tr = ctx.load_result("trace.json")
    return {
        "exhaustive": True,
        "assumptions": ASSUME,
        "coverage": {
            "rule": "every string over each family alphabet up to MaxLen characters is a terminal state of the lexer "
                    "machine (exhaustive); each is concretised with several byte representatives and scanned by the "
                    "real code; plus random byte strings, the test queries, numeric literals at the edges of 64 bits and the texts of "
                    "TLC-generated programs (sequences of well-formed and broken statements, statement lists, planted "
                    "programs, bracket groups) validated by TLC against LexRef. "
                    "Non-trivial = at least one token.",
            "trace_records": tr["cases"],
            "trace_records_rejected_by_TLC": tr["checks"].get("trace_records_rejected_by_TLC", 0),
            "families": {f: (families[f][1] if thorough else families[f][0]) for f in families},
        },
    }


def run_c09(ctx):
    return lex_like(ctx, "C09", LEX_FAMILIES, 200000 if ctx.tier == "thorough" else 5000)


def run_c15(ctx):
    return lex_like(ctx, "C15", SPLIT_FAMILIES, 100000 if ctx.tier == "thorough" else 5000)


CHECKS = {
    "C09": {"run": run_c09, "level": "model_checking"},
    "C15": {"run": run_c15, "level": "model_checking"},
}
