"""C16 (command-line tool) and C14 (purity, determinism, thread safety): spec/Cli.tla, Conc.tla."""
import os
from vlib import Inconclusive


def run_c16(ctx):
    ctx.want_clicopy = True
    ctx.build_harness()
    ctx.cli_bin = ctx.build_cli()
    thorough = ctx.tier == "thorough"
    neg = ctx.tlc("Cli", "cli_neg", workers=2, timeout=600, must_finish=False)
    if neg["finished"]:
        raise Inconclusive("negative control: the loop without the let prelude at end of input should violate MachineMeetsRef")
    ctx.tlc_runs.pop()
    info = ctx.tlc("Cli", "cli", overrides={"MaxStmts": 4 if thorough else 3}, workers=16, timeout=7000)
    clidir = ctx.path("clitmp")
    os.makedirs(clidir, exist_ok=True)
    ctx.harness("cli-replay", "--bin", ctx.cli_bin, "--dir", clidir, "--cases", info["out"], "--seed", ctx.seed,
                "--sample", 12 if thorough else 1, "--trace", ctx.path("cli.ndjson"), "--side", ctx.path("cli.side"),
                "--out", "cli.json", timeout=7200)
    rcli = ctx.load_result("cli.json")
    os.unlink(info["out"])
    # the same runs as observations, judged by TLC
    vouts = ctx.tlc_trace("TraceCli", "trace_cli", ctx.path("cli.ndjson"), chunks=12)
    ctx.harness("cli-io-trace-check", "--side", ctx.path("cli.side"), "--verdicts", ",".join(vouts), "--out", "clitrace.json")
    ctx.load_result("clitrace.json")
    # the concatenating reader: all sources x all read schedules (MultiReader.tla), replayed on the real reader
    rneg = ctx.tlc("MultiReader", "reader_neg", workers=2, timeout=600, must_finish=False)
    if rneg["finished"]:
        raise Inconclusive("negative control: the reader that lets EOF through with the last data of a source should violate DeliversAll")
    ctx.tlc_runs.pop()
    rd = ctx.tlc("MultiReader", "reader", overrides={"MaxData": 3 if thorough else 2, "MaxCap": 3 if thorough else 2}, workers=16, timeout=3000)
    reader_note = None
    if getattr(ctx, "clicopy", False):
        ctx.harness("reader-replay", "--cases", rd["out"], "--out", "reader.json", timeout=3000)
        ctx.load_result("reader.json")
    else:
        reader_note = ("the reader replay was skipped: cmd/pql no longer has a multiReadCloser{readers} that the harness can "
                       "compile in (" + getattr(ctx, "clicopy_error", "").strip().splitlines()[-1][:200] + ")")
        ctx.notes.append(reader_note)
    os.unlink(rd["out"])
    # input channels and unreadable input: CliInput.tla generates, the binary runs, TLC judges the observations
    io = ctx.tlc("CliInput", "cli_io", workers=16, timeout=3000)
    ctx.harness("cli-io-replay", "--bin", ctx.cli_bin, "--dir", clidir, "--cases", io["out"], "--seed", ctx.seed,
                "--sample", 1 if thorough else 5, "--trace", ctx.path("cliio.ndjson"), "--side", ctx.path("cliio.side"),
                "--out", "cliio.json", timeout=7200)
    rio = ctx.load_result("cliio.json")
    os.unlink(io["out"])
    vouts = ctx.tlc_trace("TraceCli", "trace_cli", ctx.path("cliio.ndjson"), chunks=12)
    ctx.harness("cli-io-trace-check", "--side", ctx.path("cliio.side"), "--verdicts", ",".join(vouts), "--out", "cliiotrace.json")
    tr = ctx.load_result("cliiotrace.json")
    if tr["cases"] != rio["cases"] - rio["n_violations"]:
        raise Inconclusive("TLC judged %d of %d recorded runs of the command" % (tr["cases"], rio["cases"]))
    return {"exhaustive": not thorough, "assumptions": [
        "TLC 1.8.0; Cli.tla abstracts statements to five kinds and text to fragments / semicolons / line breaks",
        "whether an empty statement between semicolons and an unterminated final let count as failures is left open "
        "(both exit statuses are accepted when nothing else failed)",
        "expected standard output is computed with the library's own Compile on prelude + statement, as the property defines it",
        "what is printed for text read before a read error is left open (any number of the completely read statements, in "
        "order, possibly one more block); a directory argument stands for a file that can be opened but not read",
    ], "coverage": {
        "rule": "design level: every script of up to MaxStmts statements over {let ok, let bad, query ok, query bad, empty} in "
                "every layout (statement on one or two lines; next statement on the same line, the next line, after a blank "
                "line; last statement with ';' + newline, ';', newline only, or nothing) is a terminal state and the line-loop "
                "model prints what the script demands (negative control: the pinned loop without the prelude at end of input "
                "fails). Conformance: each terminal state is concretised (lets with distinguishable values that the queries "
                "use, semicolons inside strings and comments, several kinds of invalid statements) and fed to the cmd/pql binary "
                "built from the working tree via stdin, one file, four files cut at arbitrary bytes, or with -o; stdout, exit "
                "status and stderr line count are compared; plus an over-long line and an unreadable file. Thorough: MaxStmts 4 "
                "at design level, every 12th terminal state (by seed) run through the binary. Input channels (CliInput.tla, scripts "
                "of up to 2 statements over {let ok, query ok, query bad}): stdin / one file / three files cut at every pair of "
                "symbol boundaries (second cut: same, two further, end) x fault {none, a directory before piece 1..4, a missing "
                "path there, piece 1..3 as '-' on stdin} x output {stdout, -o file}; TLC checks that the model of makeInput / "
                "reader / line scanner / loop is accepted by the judge and that the judge rejects exit 0 on unreadable input, "
                "extra and missing blocks; every 5th case (quick) or every case (thorough) is run through the binary with real "
                "files and directories, each block of stdout is identified as (statement, lets in scope), and the observations "
                "are judged by TLC (TraceCli.tla). Non-trivial = more than one statement.",
    }}


CONC_CALLS = ('{"g1":[{"lets":1,"tabs":1,"map":"A"},{"lets":0,"tabs":1,"map":"nil"}],'
              '"g2":[{"lets":0,"tabs":2,"map":"A"},{"lets":1,"tabs":0,"map":"B"}],'
              '"g3":[{"lets":1,"tabs":1,"map":"nil"}]}')


def run_c14(ctx):
    ctx.build_harness()
    race = ctx.build_harness(race=True)
    thorough = ctx.tier == "thorough"
    for neg in ("conc_noonce", "conc_alias"):
        n = ctx.tlc("MCConc", neg, workers=2, timeout=600, must_finish=False)
        if n["finished"]:
            raise Inconclusive("negative control %s should violate an invariant of Conc.tla" % neg)
        ctx.tlc_runs.pop()
    ctx.tlc("MCConc", "conc", workers=8, timeout=3000)          # all interleavings, all invariants
    proved = ctx.tlapm("ConcProof")                             # the same invariants for any number of goroutines and calls
    sched = ctx.tlc("MCConc", "conc_sched", name="conc_sched_sim", workers=4, simulate="num=%d" % (1500 if thorough else 75),
                    depth=100, timeout=3000, must_finish=False)
    d = ctx.path("conc")
    os.makedirs(d, exist_ok=True)
    ctx.harness("conc-replay", "--race-bin", race, "--dir", d, "--schedules", sched["out"], "--calls", CONC_CALLS,
                "--max-schedules", 5000 if thorough else 200, "--traced", 400 if thorough else 40,
                "--fresh-processes", 200 if thorough else 12, "--seed", ctx.seed, "--trace", ctx.path("conc.ndjson"),
                "--out", "conc.json", timeout=7200)
    r = ctx.load_result("conc.json")
    os.unlink(sched["out"])
    ntr = r["checks"].get("traces_for_TLC", 0)
    vouts = ctx.tlc_trace("TraceConc", "trace_conc", ctx.path("conc.ndjson"), chunks=8)
    ctx.harness("conc-trace-check", "--verdicts", ",".join(vouts), "--out", "conctrace.json")
    tr = ctx.load_result("conctrace.json")
    if tr["cases"] != ntr:
        # A record without an accepting verdict was rejected by TLC: the code no longer takes the steps of Conc.tla in
        # the model's order.  The property speaks about results, races and parameter maps (decided above by the race
        # detector and the comparisons), not about the order of the hook points: reported as drift, with a note.
        tr["conformance_drift"] = tr.get("conformance_drift", 0) + (ntr - tr["cases"])
        ctx.notes.append("%d of %d recorded hook logs are not behaviours of Conc.tla (structure of Compile differs from the "
                         "model; no race, result or parameter-map difference was observed in those rounds)" % (ntr - tr["cases"], ntr))
    return {"exhaustive": True, "assumptions": [
        "TLC 1.8.0; tlapm 1.6.0-pre with its SMT / Zenon / Isabelle / PTL back ends; the Go race detector (go build -race) and "
        "Go's memory model",
        "hooks at the linearization points (build tag verif); the harness never synchronises goroutines inside the code under "
        "test (clock-driven schedules, per-goroutine logs), so the race detector sees the code's own synchronisation only",
        "Parse and Scan have no shared state by construction of the package (checked by the race detector in the bursts)",
    ], "coverage": {
        "rule": "design level: all interleavings of three goroutines issuing five calls (lets, function-table look-ups, shared and "
                "nil parameter maps) at the granularity of the hook points; invariants NoRace, InitOnce, ParamsUnchanged, "
                "ResultIsFunctionOfInput, no deadlock; negative controls ('if m == nil' instead of sync.Once; scope aliasing the "
                "caller's map) must fail; for any number of goroutines and calls the inductive invariant of ConcProof.tla (no "
                "race on the table or on a caller's map, single initialisation, reads of an initialised table only, parameter "
                "maps untouched, the result of a call a function of that call alone) is checked by the TLA+ proof system "
                "(258 obligations). Conformance: schedules drawn by tlc -simulate are replayed on real goroutines in a -race "
                "build (first use of the function table in every round; clock-driven, no hand-offs); free rounds record the hook "
                "points per goroutine and TLC searches an interleaving that is a behaviour of Conc.tla; bursts of 2/8/64 "
                "goroutines with mixed Compile/Parse/Scan calls (incl. error cases) in fresh processes. Every result is compared "
                "with the same call alone (nil, zero and empty options), parameter maps are deep-compared, any race report is a violation.",
        "hook_logs_validated_by_TLC": tr["cases"], "tlapm_obligations_proved": proved,
        "obligations": proved, "discharged": proved, "checker_cmd": "tlapm --stretch 4 ConcProof.tla (spec/ConcProof.tla)",
    }}


CHECKS = {
    "C16": {"run": run_c16, "level": "model_checking"},
    "C14": {"run": run_c14, "level": "model_checking"},
}
