"""C02 (operator order), C03 (joins), C05 (statement well-formedness): spec/Rel.tla,
QuerySplit.tla, PlanCheck.tla."""
import os
import props_prog

ASSUME = [
    "TLC 1.8.0 and the CommunityModules Json module",
    "the target dialect as specified in spec/Sql.tla (statement grammar), spec/ExprSem.tla (values) and spec/Rel.tla "
    "(relational meaning; an ORDER BY inside a sub-select is preserved by outer SELECTs that only filter, project or limit, "
    "and destroyed by GROUP BY, DISTINCT and JOIN); no SQL engine is available offline",
    "results are compared only on databases where the PQL result is determined (no row limit cuts through tied rows); "
    "rows that tie under the last sort may come in any order",
    "the SQL lexer of the harness (checked against SqlLex.tla by C04)",
]


def plan_like(ctx, prop, runs, extra_cases=None, soups=0, sims=None):
    ctx.build_harness()
    jobs = []
    for name, cfg, ov in runs:
        def job(name=name, cfg=cfg, ov=ov):
            return ctx.tlc("PlanCheck", cfg, name=name, overrides=ov, workers=8, timeout=7000)["out"]
        jobs.append(job)
    for name, cfg, ov, num, depth in (sims or []):
        def sjob(name=name, cfg=cfg, ov=ov, num=num, depth=depth):
            return ctx.tlc("PlanCheck", cfg, name=name, overrides=ov, workers=8, simulate=num, depth=depth, timeout=7000,
                           must_finish=False)["out"]
        jobs.append(sjob)
    outs = ctx.parallel(jobs, width=2)
    outs += extra_cases or []
    ctx.harness("plan-replay", "--property", prop, "--cases", ",".join(outs), "--seed", ctx.seed, "--soups", soups,
                "--trace", "plan.ndjson", "--out", "plan.json", timeout=7200)
    ctx.load_result("plan.json")
    for o in outs:
        os.unlink(o)
    vouts = ctx.tlc_trace("PlanCheck", "trace_plan", ctx.path("plan.ndjson"), chunks=14, timeout=7000)
    ctx.harness("plan-trace-check", "--property", prop, "--side", "plan.ndjson.side", "--verdicts", ",".join(vouts),
                "--out", "plantrace.json")
    tr = ctx.load_result("plantrace.json")
    return tr


def run_c02(ctx):
    thorough = ctx.tier == "thorough"
    runs = [("plan_seq", "plan_seq", {"MaxOps": 4 if thorough else 3, "DbRows": 2, "CoreFrom": 3 if thorough else 2})]
    # four operators in a row from the nine whose order matters most (sorts, filters, limits, top)
    runs.append(("plan_seq_order4", "plan_seq", {"MaxOps": 5 if thorough else 4, "DbRows": 2, "CoreFrom": 0}))
    if thorough:
        runs.append(("plan_seq_rows3", "plan_seq", {"MaxOps": 2, "DbRows": 3}))
    # thorough: random longer sequences (up to 7 operators) by simulation
    sims = [("plan_seq_long", "plan_seq", {"MaxOps": 7, "DbRows": 1, "CoreFrom": 2}, "num=120", 8)] if thorough else None
    tr = plan_like(ctx, "C02", runs, sims=sims)
    return {"exhaustive": True, "assumptions": ASSUME, "coverage": {
        "rule": "every sequence of up to 4 (5) operators from the nine sort / filter / limit / top instances, and "
                "every sequence of up to MaxOps operators from a menu of 25 operator instances (where, project incl. renaming "
                "and reordering, extend named/unnamed, summarize with and without keys / aggregates / trailing comma, sort with "
                "every default, take, top, count, as, render; third and later positions from one representative per kind) is a "
                "state of the choice tree; after every operator TLC checks that the QuerySplit model's statement, read and "
                "evaluated (Rel!SqlSem), equals the left-to-right interpreter (Rel!PipelineSem) incl. column names and order on "
                "every table T(a,b) with up to DbRows rows over {NULL,1,2}^2 (duplicates, ties, NULLs, empty). Conformance: each "
                "sequence is compiled by the real Compile and the real statement is validated by TLC with the same relation.",
        "statements_validated_by_TLC": tr["cases"], "conformance_drift": tr.get("conformance_drift", 0)}}


def run_c03(ctx):
    thorough = ctx.tier == "thorough"
    runs = [("plan_join", "plan_join", {"MaxOps": 4, "DbRows": 2 if thorough else 1})]
    if thorough:
        # two operators before and after the join (all ordered pairs of different menu entries)
        runs.append(("plan_join_deep", "plan_join", {"MaxOps": 3, "DbRows": 1, "JoinDepth": 2}))
    tr = plan_like(ctx, "C03", runs)
    return {"exhaustive": True, "assumptions": ASSUME, "coverage": {
        "rule": "left prefix (none or one of 6 operators) x 14 joins (all kinds; bare key, explicit $left/$right equality in both "
                "orientations, two conditions, extra non-join condition; right-hand pipelines with where / take / project+sort / "
                "summarize / nested join / nested join + projection) x operator after the join (none or one of 7) x optional "
                "second join; databases: T(k,a), B(k,b), C(k,c) with up to DbRows rows each, keys over {NULL,1,2}, duplicate "
                "keys, unmatched rows; design level and conformance as for C02.",
        "statements_validated_by_TLC": tr["cases"], "conformance_drift": tr.get("conformance_drift", 0)}}


def run_c05(ctx):
    thorough = ctx.tier == "thorough"
    ctx.build_harness()
    fams = props_prog.fam(ctx, ["gen_operators", "gen_positions", "gen_pipelines", "gen_statements", "gen_unary", "gen_exprtriples"],
                          dict(props_prog.corrupt_fams(thorough), **{"gen_plant": {}}))
    extra = props_prog.generate(ctx, fams, deep=(250, 60, 40) if thorough else (60, 40, 20))
    runs = [("plan_seq", "plan_seq", {"MaxOps": 3, "DbRows": 1, "CoreFrom": 3 if thorough else 1}),
            ("plan_join", "plan_join", {"MaxOps": 4, "DbRows": 1})]
    tr = plan_like(ctx, "C05", runs, extra_cases=extra, soups=300000 if thorough else 30000)
    return {"exhaustive": True, "assumptions": ASSUME[:1] + ASSUME[-1:] + [
        "user-chosen `as` names that collide with a generated name or with each other are outside the claim"], "coverage": {
        "rule": "every successful compilation among: all generator families (operators with all optional parts, expression "
                "positions, operator and statement sequences, expression nests, planted violations' twins), all single-token "
                "corruptions that still compile, random token soups, and the plan families; the statement must end in exactly "
                "one semicolon, contain no comment / unlexable piece / placeholder, have balanced brackets, and TLC must read it "
                "as [WITH ...] select under both precedence tables identically, with unique CTE names, every FROM/JOIN reading "
                "a table of the source or an earlier CTE, and no unused CTE.",
        "statements_validated_by_TLC": tr["cases"]}}


CHECKS = {
    "C02": {"run": run_c02, "level": "model_checking"},
    "C03": {"run": run_c03, "level": "model_checking"},
    "C05": {"run": run_c05, "level": "model_checking"},
}
