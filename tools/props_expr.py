"""C01 (expressions), C06 (scoping), C04 (literals and names): spec/ExprCheck.tla,
ScopeCheck.tla, SqlLexCheck.tla."""
import os
from vlib import Inconclusive

EXPR_FAMILIES = {
    # cfg -> (quick overrides, thorough overrides)
    "expr_exprpairs": ({"DecoMode": '"single"'}, {"DecoMode": '"all"'}),
    "expr_exprtriples": ({}, {}),
    "expr_unary": ({}, {}),
    "expr_positions": ({}, {}),
}

ASSUME = [
    "TLC 1.8.0 and the CommunityModules Json module",
    "the SQL dialect as specified in spec/Sql.tla (precedence tables 'ch' and 'pg') and spec/ExprSem.tla (three-valued "
    "logic, NULL propagation); no SQL engine is available offline",
    "the SQL lexer of the harness (harness/sqllex.go), cross-checked by C04",
    "value domain: NULL, two integers, both booleans, two strings differing in case, opaque terms for uninterpreted functions",
]


def run_c01(ctx):
    ctx.build_harness()
    thorough = ctx.tier == "thorough"
    jobs = []
    for cfg, (q, t) in EXPR_FAMILIES.items():
        def job(cfg=cfg, ov=(t if thorough else q)):
            return ctx.tlc("ExprCheck", cfg, overrides=ov, workers=8, timeout=6000)["out"]
        jobs.append(job)
    outs = ctx.parallel(jobs, width=2)
    num, depth, bound = (250, 60, 40) if thorough else (60, 40, 20)
    info = ctx.tlc("ExprCheck", "expr_deep", name="expr_deep_sim", overrides={"Bound": bound}, workers=8,
                   simulate="num=%d" % num, depth=depth, timeout=6000, must_finish=False)
    outs.append(info["out"])
    ctx.harness("expr-replay", "--property", "C01", "--cases", ",".join(outs), "--seed", ctx.seed,
                "--layouts", 2, "--trace", "expr.ndjson", "--out", "expr.json", timeout=7200)
    ctx.load_result("expr.json")
    for o in outs:
        os.unlink(o)
    vouts = ctx.tlc_trace("ExprCheck", "trace_expr", ctx.path("expr.ndjson"), chunks=14)
    ctx.harness("expr-trace-check", "--property", "C01", "--side", "expr.ndjson.side", "--verdicts", ",".join(vouts),
                "--out", "exprtrace.json")
    tr = ctx.load_result("exprtrace.json")
    return {
        "exhaustive": True,
        "assumptions": ASSUME,
        "coverage": {
            "rule": "design level: TLC checks on every expression of the families (all pairs of the 16 binary-level operators "
                    "in both groupings with decorated operands; operator triples in all five groupings with minimal and with "
                    "redundant parentheses; nests of signs, indexing, calls, not, strcat, parentheses in nine operand contexts; "
                    "22 expressions in 21 expression positions; random deep trees) that the writer model's SQL read back under "
                    "both precedence tables has the PQL value on every row. Conformance: each expression is compiled by the "
                    "real Compile and the real SQL statement is read and evaluated by TLC against the PQL meaning on every row.",
            "compilations_validated_by_TLC": tr["cases"],
        },
    }


def run_c06(ctx):
    ctx.build_harness()
    out = ctx.tlc("ExprCheck", "expr_scope", overrides={"Bound": 1 if ctx.tier == "thorough" else 0}, workers=16, timeout=6000)["out"]
    ctx.harness("expr-replay", "--property", "C06", "--cases", out, "--seed", ctx.seed,
                "--layouts", 3 if ctx.tier == "thorough" else 2, "--trace", "scope.ndjson", "--out", "scope.json", timeout=7200)
    ctx.load_result("scope.json")
    os.unlink(out)
    vouts = ctx.tlc_trace("ExprCheck", "trace_expr", ctx.path("scope.ndjson"), chunks=14)
    ctx.harness("expr-trace-check", "--property", "C06", "--side", "scope.ndjson.side", "--verdicts", ",".join(vouts),
                "--out", "scopetrace.json")
    tr = ctx.load_result("scopetrace.json")
    return {
        "exhaustive": True,
        "assumptions": ASSUME + ["parameter snippets are single placeholders ($1..$4): parameters are inserted verbatim by contract"],
        "coverage": {
            "rule": "every program of the scope family: 10 binding set-ups (single, chain, redefinition, let over parameter, "
                    "parameter only, let referring to a parameter, lets after the query, unused binding, later shadowing, "
                    "parameters colliding with a column and with the constant true) x 9 value shapes x 20 use sites "
                    "(operand of every operator class, sign, index base and index, in subject and list, call argument, "
                    "quoted / qualified / function-name occurrences that must not be substituted) and 10 expression "
                    "positions incl. row counts and join conditions (quick: the bare, negated and compared uses at every position, "
                    "the others in where; thorough: every use at every position). Design level: writer model with scope vs lexical "
                    "scoping semantics on every row and placeholder valuation; conformance: the real SQL statement is read "
                    "and evaluated by TLC with the placeholders bound.",
            "compilations_validated_by_TLC": tr["cases"],
        },
    }


def run_c04(ctx):
    ctx.build_harness()
    thorough = ctx.tier == "thorough"
    neg = ctx.tlc("SqlLex", "sqllex_neg", workers=2, timeout=600, must_finish=False)
    if neg["finished"]:
        raise Inconclusive("negative control: the pinned quoting (no backslash escape) should violate StringsAreData")
    ctx.tlc_runs.pop()
    lex = ctx.tlc("SqlLex", "sqllex", overrides={"MaxContent": 4 if thorough else 3}, workers=16, timeout=6000)
    nums = ctx.tlc("PqlLexer", "lex_numbers", overrides={"MaxLen": 6 if thorough else 4}, workers=8, timeout=6000)
    ctx.harness("c04-replay", "--cases", lex["out"], "--numbers", nums["out"], "--seed", ctx.seed, "--reps", 3 if thorough else 2,
                "--random", 200000 if thorough else 4000, "--out", "c04.json", timeout=7200)
    ctx.load_result("c04.json")
    os.unlink(lex["out"])
    os.unlink(nums["out"])
    return {
        "exhaustive": True,
        "assumptions": [
            "TLC 1.8.0; the lexical rules of the target dialect as specified in spec/SqlLex.tla (standard quoting, ClickHouse backslash escapes)",
            "the harness's SQL lexer (harness/sqllex.go) is checked against SqlLex.tla on every enumerated text and aborts the run on disagreement",
            "the decode identity is required under the ClickHouse rules (the target dialect), invariance of the token structure "
            "under both rule sets (under the standard rules a backslash is an ordinary character, so content tokens are not "
            "compared by value there)",
            "numeric values compared with math/big",
        ],
        "coverage": {
            "rule": "design level: TLC checks for every content over a 17-symbol alphabet (all three quote kinds, backslash, comment "
                    "markers, semicolon, NUL, escapes, non-ASCII, invalid UTF-8, bracket, comma) up to MaxContent that the quoted "
                    "text is one token under both rule sets and decodes to the content; a negative control without the backslash "
                    "escape must fail. Conformance: every content (two byte concretisations) and random contents up to 40 bytes "
                    "are placed at 15 string positions and 16 name positions of real programs; the real SQL is lexed under both "
                    "rule sets and compared token by token with the same program carrying a plain content. Non-trivial = non-empty content.",
        },
    }


CHECKS = {
    "C04": {"run": run_c04, "level": "model_checking"},
    "C01": {"run": run_c01, "level": "model_checking"},
    "C06": {"run": run_c06, "level": "model_checking"},
}
