"""C07, C10, C11 (and the generated-program part of C12/C13): spec/Grammar.tla,
GenProg.tla -> parser.Parse / Walk / pql.Compile."""
import os

# family -> (cfg overrides quick, cfg overrides thorough)
GEN_FAMILIES = {
    "gen_exprpairs": ({"DecoMode": '"single"'}, {"DecoMode": '"all"'}),
    "gen_exprtriples": ({}, {}),
    "gen_unary": ({}, {}),
    "gen_positions": ({}, {}),
    "gen_operators": ({}, {}),
    "gen_pipelines": ({"Bound": 2}, {"Bound": 3}),
    "gen_statements": ({"Bound": 3}, {"Bound": 5}),
    "gen_wide": ({"Bound": 0}, {"Bound": 1}),        # long lists in every list position (9/17/33, thorough 17/33/70)
}

# the same families through spec/Walk.tla: design-level WalkCorrect and the expected visit log per program
WALK_FAMILIES = {"Walk/walk_" + k[len("gen_"):]: v for k, v in GEN_FAMILIES.items()}

ASSUME = [
    "TLC 1.8.0 and the CommunityModules Json module",
    "token -> text rendering and AST -> record projection of the harness (harness/render.go, project.go)",
    "the lexer (checked separately by C09) for turning rendered text back into the same tokens",
]


def generate(ctx, families=GEN_FAMILIES, deep=None):
    """Run the generator families; returns list of TLC output files."""
    thorough = ctx.tier == "thorough"
    outs = []
    jobs = []
    for fam, (q, t) in families.items():
        def job(fam=fam, ov=(t if thorough else q)):
            cfg = fam.split(":")[0]
            module = "GenProg"
            if "/" in cfg:
                module, cfg = cfg.split("/")
            return ctx.tlc(module, cfg, name=fam.replace(":", "_").replace("/", "_"), overrides=ov, workers=4, timeout=3000)["out"]
        jobs.append(job)
    outs = ctx.parallel(jobs, width=4)
    if deep:
        num, depth, bound = deep
        info = ctx.tlc("GenProg", "gen_deep", name="gen_deep_sim", overrides={"Bound": bound}, workers=8,
                       simulate="num=%d" % num, depth=depth, timeout=3000, must_finish=False)
        outs.append(info["out"])
    return outs


def prog_like(ctx, prop, families=GEN_FAMILIES, deep=True, trace=False, soups=0, layouts=None, prune=None):
    ctx.build_harness()
    thorough = ctx.tier == "thorough"
    outs = generate(ctx, families, deep=(((250, 60, 40) if thorough else (100, 40, 24)) if deep else None))
    argv = ["prog-replay", "--property", prop, "--cases", ",".join(outs), "--seed", ctx.seed,
            "--layouts", layouts or (8 if thorough else 4), "--out", "prog.json", "--soups", soups,
            "--prune", prune or 3]
    if trace:
        argv += ["--trace", "parse.ndjson", "--trace-cap", 200000 if thorough else 25000]
    ctx.harness(*argv, timeout=7200)
    ctx.load_result("prog.json")
    for o in outs:
        os.unlink(o)
    cov = {
        "rule": "every program of the generator families of spec/GenProg.tla named in tlc_runs is a terminal state of the "
                "choice tree (exhaustive within the family bounds: operator pairs x groupings x operand decorations, triples, "
                "sign/index/call/paren nests in every operand context, an expression menu in every expression position, every "
                "operator with every combination of optional parts, operator and statement sequences, planted rule violations "
                "with their twins, all single token edits, pathological nestings); plus random deep expression trees from "
                "tlc -simulate; each is rendered in several layouts and fed to the real code. Non-trivial = contains at "
                "least one operator, expression or edit.",
    }
    if trace:
        info = ctx.tlc("TraceParse", "trace_parse", workers=1, timeout=3000, env={"TRACE_FILE": ctx.path("parse.ndjson")})
        ctx.harness("parse-trace-check", "--property", prop, "--side", "parse.ndjson.side", "--verdicts", info["out"],
                    "--out", "ptrace.json")
        tr = ctx.load_result("ptrace.json")
        cov["accepted_sources_validated_by_TLC"] = tr["cases"]
    return {"exhaustive": True, "assumptions": ASSUME, "coverage": cov}


def corrupt_fams(thorough):
    if thorough:
        return {
            "ParseCheck/parse_corrupt:operators": {"BaseFamily": '"operators"', "EditMenu": 22},
            "ParseCheck/parse_corrupt:positions": {"BaseFamily": '"positions"', "EditMenu": 22},
            "ParseCheck/parse_corrupt:pipelines": {"BaseFamily": '"pipelines"', "EditMenu": 10, "Bound": 2},
            "ParseCheck/parse_corrupt:statements": {"BaseFamily": '"statements"', "EditMenu": 22, "Bound": 3},
        }
    return {
        "ParseCheck/parse_corrupt:operators": {"BaseFamily": '"operators"', "EditMenu": 22},
        "ParseCheck/parse_corrupt:positions": {"BaseFamily": '"positions"', "EditMenu": 4},
    }


def fam(ctx, names, extra=None):
    thorough = ctx.tier == "thorough"
    out = {k: GEN_FAMILIES[k] for k in names}
    for k, ov in (extra or {}).items():
        out[k] = (ov, ov)
    return out


PARSE_FAMILIES = ["parse_operators", "parse_positions", "parse_exprpairs", "parse_exprtriples", "parse_unary",
                  "parse_pipelines", "parse_statements", "parse_plant", "parse_scope"]


def parse_design(ctx):
    """ParseMachine = Grammar on every tree family (design level; no CASE output)."""
    thorough = ctx.tier == "thorough"
    jobs = []
    for cfg in PARSE_FAMILIES:
        ov = {}
        if cfg == "parse_exprpairs" and thorough:
            ov = {"DecoMode": '"all"'}
        if cfg == "parse_pipelines":
            ov = {"Bound": 3 if thorough else 2}
        if cfg == "parse_statements":
            ov = {"Bound": 5 if thorough else 3}

        def job(cfg=cfg, ov=ov):
            info = ctx.tlc("ParseCheck", cfg, overrides=ov, workers=4, timeout=3000)
            os.unlink(info["out"])
        jobs.append(job)
    ctx.parallel(jobs, width=4)


def run_c07(ctx):
    parse_design(ctx)
    return prog_like(ctx, "C07", trace=True)


def run_c08(ctx):
    thorough = ctx.tier == "thorough"
    fams = fam(ctx, ["gen_operators", "gen_positions", "gen_pipelines", "gen_statements"],
               dict(corrupt_fams(thorough), **{"gen_groups": {}, "gen_stmtseq": {}}))
    return prog_like(ctx, "C08", fams, deep=False, trace=True, soups=400000 if thorough else 30000, layouts=2)


def run_c12(ctx):
    thorough = ctx.tier == "thorough"
    extra = {"gen_stress": {"Bound": 2000 if thorough else 500}, "ParseCheck/parse_stress": {"Bound": 1}, "gen_plant": {}, "gen_groups": {}, "gen_stmtseq": {}}
    extra.update(corrupt_fams(thorough) if thorough else {"ParseCheck/parse_corrupt:operators": {"BaseFamily": '"operators"', "EditMenu": 4}})
    fams = fam(ctx, list(GEN_FAMILIES), extra)
    return prog_like(ctx, "C12", fams, deep=True, soups=500000 if thorough else 40000, layouts=3 if not thorough else 4)


def run_c13(ctx):
    thorough = ctx.tier == "thorough"
    extra = {"gen_plant": {"Bound": 1}}       # planted violations also inside pipelines (17 contexts)
    extra.update({"ParseCheck/parse_corrupt:operators": {"BaseFamily": '"operators"', "EditMenu": 22 if thorough else 4}})
    fams = fam(ctx, list(GEN_FAMILIES), extra)
    return prog_like(ctx, "C13", fams, deep=True, soups=100000 if thorough else 10000, layouts=6 if thorough else 3)


CHECKS = {
    "C07": {"run": lambda ctx: run_c07(ctx), "level": "model_checking"},
    "C08": {"run": run_c08, "level": "model_checking"},
    "C10": {"run": lambda ctx: prog_like(ctx, "C10", fam(ctx, list(GEN_FAMILIES), {"gen_plant": {}, "ParseCheck/parse_corrupt:operators": {"BaseFamily": '"operators"', "EditMenu": 22 if ctx.tier == "thorough" else 4}}), soups=200000 if ctx.tier == "thorough" else 20000), "level": "model_checking"},
    "C11": {"run": lambda ctx: prog_like(ctx, "C11", families=WALK_FAMILIES, prune=1000 if ctx.tier == "thorough" else 24), "level": "model_checking"},
    "C12": {"run": run_c12, "level": "model_checking"},
    "C13": {"run": run_c13, "level": "model_checking"},
}
