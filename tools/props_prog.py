"""C07, C10, C11 (and the generated-program part of C12/C13): spec/Grammar.tla,
GenProg.tla -> parser.Parse / Walk / pql.Compile."""
import os

# family -> (cfg overrides quick, cfg overrides thorough)
GEN_FAMILIES = {
    "gen_exprpairs": ({"DecoMode": '"single"'}, {"DecoMode": '"all"'}),
    "gen_exprtriples": ({}, {}),
    "gen_unary": ({}, {}),
    "gen_positions": ({}, {}),
    "gen_operators": ({}, {}),
    "gen_pipelines": ({"Bound": 2}, {"Bound": 3}),
    "gen_statements": ({"Bound": 3}, {"Bound": 5}),
}

ASSUME = [
    "TLC 1.8.0 and the CommunityModules Json module",
    "token -> text rendering and AST -> record projection of the harness (harness/render.go, project.go)",
    "the lexer (checked separately by C09) for turning rendered text back into the same tokens",
]


def generate(ctx, families=GEN_FAMILIES, deep=None):
    """Run the generator families; returns list of TLC output files."""
    thorough = ctx.tier == "thorough"
    outs = []
    jobs = []
    for fam, (q, t) in families.items():
        def job(fam=fam, ov=(t if thorough else q)):
            return ctx.tlc("GenProg", fam, overrides=ov, workers=4, timeout=3000)["out"]
        jobs.append(job)
    outs = ctx.parallel(jobs, width=4)
    if deep:
        num, depth, bound = deep
        info = ctx.tlc("GenProg", "gen_deep", name="gen_deep_sim", overrides={"Bound": bound}, workers=1,
                       simulate="num=%d" % num, depth=depth, timeout=3000, must_finish=False)
        outs.append(info["out"])
    return outs


def prog_like(ctx, prop):
    ctx.build_harness()
    thorough = ctx.tier == "thorough"
    outs = generate(ctx, deep=((20000, 60, 40) if thorough else (1500, 40, 24)))
    ctx.harness("prog-replay", "--property", prop, "--cases", ",".join(outs), "--seed", ctx.seed,
                "--layouts", 12 if thorough else 4, "--out", "prog.json", timeout=7200)
    ctx.load_result("prog.json")
    for o in outs:
        os.unlink(o)
    return {
        "exhaustive": True,
        "assumptions": ASSUME,
        "coverage": {
            "rule": "every program of the generator families of spec/GenProg.tla (all operator pairs x groupings x operand "
                    "decorations, triples, sign/index/call/paren nests in every operand context, an expression menu in every "
                    "expression position, every operator with every combination of optional parts, operator sequences, "
                    "statement sequences) is a terminal state; plus random deep expression trees from tlc -simulate; each is "
                    "rendered in several layouts and fed to the real Parse / Walk / Compile. Every generated program is "
                    "non-trivial (at least one operator or expression).",
        },
    }


CHECKS = {
    "C07": {"run": lambda ctx: prog_like(ctx, "C07"), "level": "model_checking"},
    "C10": {"run": lambda ctx: prog_like(ctx, "C10"), "level": "model_checking"},
    "C11": {"run": lambda ctx: prog_like(ctx, "C11"), "level": "model_checking"},
}
