"""Shared machinery of the checks: scratch directories, building the harness
from /repo's working tree, running TLC, collecting results, evidence files,
known findings, VIOLATION lines.

Verdict rule (DESIGN.md 2.1): exit 1 only for a behaviour of the real code,
rejected by the specification's relation and reproduced from its replay file.
Everything that goes wrong in the machinery itself is exit 2.
"""
import concurrent.futures
import hashlib
import json
import os
import re
import shutil
import subprocess
import sys
import tempfile
import time

VERIF = os.path.dirname(os.path.dirname(os.path.abspath(__file__)))
REPO = os.environ.get("VERIF_REPO", "/repo")
SPEC = os.path.join(VERIF, "spec")
HARNESS = os.path.join(VERIF, "harness")
NCPU = os.cpu_count() or 4

GOENV = dict(os.environ, GOFLAGS="-mod=mod", GOPROXY="off", GOSUMDB="off", GOTOOLCHAIN="local",
             CGO_ENABLED=os.environ.get("CGO_ENABLED", "1"))


class Inconclusive(Exception):
    pass


class Ctx:
    def __init__(self, prop, tier, seed):
        self.prop = prop
        self.tier = tier
        self.seed = seed
        self.t0 = time.time()
        self.scratch = tempfile.mkdtemp(prefix="verif-%s-" % prop, dir=os.environ.get("VERIF_SCRATCH", "/tmp"))
        self.specdir = os.path.join(self.scratch, "spec")
        shutil.copytree(SPEC, self.specdir)
        self.tlc_runs = []       # dicts: module, cfg, generated, distinct, seconds
        self.results = []        # harness result dicts
        self.notes = []
        self.harness_bin = None

    # ------------------------------------------------------------------ build
    def build_harness(self, race=False, tags="verif"):
        """Build the harness against the current working tree of /repo."""
        out = os.path.join(self.scratch, "harness-race" if race else "harness")
        work = os.path.join(self.scratch, "hsrc")
        if not os.path.exists(work):
            shutil.copytree(HARNESS, work)
            gomod = open(os.path.join(work, "go.mod")).read()
            gomod = re.sub(r"replace github.com/runreveal/pql => .*", "replace github.com/runreveal/pql => " + REPO, gomod)
            open(os.path.join(work, "go.mod"), "w").write(gomod)
            shutil.copy(os.path.join(REPO, "go.sum"), os.path.join(work, "go.sum"))
        if getattr(self, "want_clicopy", False) and not race:
            # the command's unexported input plumbing, compiled into the harness from the working tree's own
            # source (package main cannot be imported): cmd/pql/*.go as package clicopy plus an export file
            cc = os.path.join(work, "clicopy")
            shutil.rmtree(cc, ignore_errors=True)
            os.makedirs(cc)
            for f in sorted(os.listdir(os.path.join(REPO, "cmd", "pql"))):
                if f.endswith(".go") and not f.endswith("_test.go"):
                    src = open(os.path.join(REPO, "cmd", "pql", f)).read()
                    src = re.sub(r"(?m)^package main\b", "package clicopy", src)
                    src = re.sub(r"(?m)^func main\(\)", "func Main()", src)
                    open(os.path.join(cc, f), "w").write(src)
            open(os.path.join(cc, "zz_export.go"), "w").write(
                "package clicopy\n\nimport \"io\"\n\n"
                "// NewMulti exposes the command's concatenating reader to the harness.\n"
                "func NewMulti(rs []io.ReadCloser) io.ReadCloser { return &multiReadCloser{readers: rs} }\n")
            p = subprocess.run(["go", "build", "-tags", tags + " clicopy", "-o", out, "."], cwd=work, env=GOENV,
                               capture_output=True, text=True)
            if p.returncode == 0:
                self.harness_bin = out
                self.clicopy = True
                return out
            # the plumbing was restructured: the reader replay is skipped and reported, the rest of the harness is built
            self.clicopy = False
            self.clicopy_error = p.stderr[-1500:]
            shutil.rmtree(cc, ignore_errors=True)
        cmd = ["go", "build", "-tags", tags]
        if race:
            cmd.append("-race")
        cmd += ["-o", out, "."]
        p = subprocess.run(cmd, cwd=work, env=GOENV, capture_output=True, text=True)
        if p.returncode != 0:
            raise Inconclusive("harness does not build against %s:\n%s" % (REPO, p.stderr[-3000:]))
        if not race:
            self.harness_bin = out
        return out

    def build_cli(self):
        out = os.path.join(self.scratch, "pql-cli")
        p = subprocess.run(["go", "build", "-tags", "verif", "-o", out, "./cmd/pql"], cwd=REPO, env=GOENV,
                           capture_output=True, text=True)
        if p.returncode != 0:
            raise Inconclusive("cmd/pql does not build:\n" + p.stderr[-3000:])
        return out

    # -------------------------------------------------------------------- TLC
    def tlc(self, module, cfg, name=None, overrides=None, workers=None, timeout=900, env=None,
            simulate=None, depth=None, extra=None, must_finish=True, _nocov=False):
        """Run TLC in the scratch copy of spec/.  Returns a dict with the output
        path and the state counts.  overrides rewrites `Name = value` lines of
        the configuration (tier-dependent bounds)."""
        name = name or cfg
        cfgsrc = open(os.path.join(self.specdir, "cfg", cfg + ".cfg")).read()
        for k, v in (overrides or {}).items():
            cfgsrc, n = re.subn(r"(?m)^(\s*%s\s*=\s*).*$" % re.escape(k), lambda mo: mo.group(1) + str(v), cfgsrc)
            if n != 1:
                raise Inconclusive("cfg %s has no constant %s" % (cfg, k))
        cfgpath = os.path.join(self.specdir, name + ".run.cfg")
        open(cfgpath, "w").write(cfgsrc)
        meta = os.path.join(self.scratch, "meta-" + name)
        out = os.path.join(self.scratch, name + ".out")
        workers = workers or NCPU
        cmd = ["timeout", str(timeout), "java", "-XX:+UseParallelGC", "-Xss256m"]
        if workers <= 2:
            cmd += ["-XX:ParallelGCThreads=2", "-Xmx3000m"]
        else:
            cmd += ["-XX:ParallelGCThreads=%d" % min(8, workers), "-Xmx%dm" % int(os.environ.get("VERIF_TLC_HEAP_MB", "12000"))]
        cmd += [
               "-cp", "/opt/veriftools/tla/tla2tools.jar:/opt/veriftools/tla/CommunityModules-deps.jar",
               "tlc2.TLC", "-workers", str(workers), "-metadir", meta, "-config", cfgpath]
        if simulate:
            cmd += ["-simulate", simulate]
            if depth:
                cmd += ["-depth", str(depth)]
            cmd += ["-seed", str(self.seed)]
        cmd += extra or []
        coverage = bool(os.environ.get("VERIF_COVERAGE")) and not simulate and "TRACE_FILE" not in (env or {}) and not _nocov
        if coverage:
            cmd += ["-coverage", "1"]
        cmd.append(module + ".tla")
        t = time.time()
        e = dict(os.environ)
        e.update(env or {})
        with open(out, "w") as fh:
            p = subprocess.run(cmd, cwd=self.specdir, stdout=fh, stderr=subprocess.STDOUT, env=e)
        secs = time.time() - t
        shutil.rmtree(meta, ignore_errors=True)
        info = {"name": name, "module": module, "cfg": cfg, "seconds": round(secs, 1), "out": out,
                "generated": 0, "distinct": 0, "rc": p.returncode, "overrides": overrides or {}}
        tail = ""
        with open(out, "rb") as fh:
            fh.seek(0, 2)
            size = fh.tell()
            fh.seek(max(0, size - (20000000 if coverage else 20000)))
            tail = fh.read().decode("utf-8", "replace")
        if coverage:
            tail = "\n".join(l for l in tail.splitlines() if not l.startswith('"') and " of module " not in l)
        mo = re.findall(r"(\d[\d,]*) states generated, (\d[\d,]*) distinct states found", tail)
        if mo:
            info["generated"] = int(mo[-1][0].replace(",", ""))
            info["distinct"] = int(mo[-1][1].replace(",", ""))
        finished = "Model checking completed. No error has been found." in tail or (simulate and p.returncode in (0,))
        info["finished"] = bool(finished)
        if coverage and must_finish and not finished:
            # coverage bookkeeping can exhaust the heap on the deeply recursive operators: run again without it
            print("  (coverage run of %s did not finish; repeated without -coverage)" % name, file=sys.stderr)
            return self.tlc(module, cfg, name=name, overrides=overrides, workers=workers, timeout=timeout, env=env,
                            simulate=simulate, depth=depth, extra=extra, must_finish=must_finish, _nocov=True)
        if must_finish and not finished:
            # find the error text (not a CASE line)
            errs = [l for l in tail.splitlines() if not l.startswith('"')][-40:]
            raise Inconclusive("TLC run %s did not complete cleanly (rc=%s, %.0fs):\n%s" %
                               (name, p.returncode, secs, "\n".join(errs)))
        self.tlc_runs.append(info)
        if coverage:
            self.collect_coverage(out)
        if os.environ.get("VERIF_VERBOSE"):
            print("  tlc %-28s %6.1fs  %d states" % (name, secs, info["distinct"]), file=sys.stderr)
        return info

    def tlapm(self, module, timeout=900):
        """Check the proofs of a module with the TLA+ proof system.  Returns the number of obligations;
        anything but "All N obligations proved" is inconclusive (a statement about the model, never a violation)."""
        out = os.path.join(self.scratch, module + ".tlapm.out")
        t = time.time()
        # back-end time limits are per obligation; on a loaded machine they are stretched, and stretched again once
        for stretch in (4, 20):
            with open(out, "w") as fh:
                p = subprocess.run(["timeout", str(timeout), "tlapm", "--threads", str(max(2, NCPU - 4)), "--stretch", str(stretch),
                                    "--cache-dir", os.path.join(self.scratch, "tlacache-" + module), module + ".tla"],
                                   cwd=self.specdir, stdout=fh, stderr=subprocess.STDOUT)
            txt = open(out, errors="replace").read()
            mo = re.search(r"All (\d+) obligations? proved", txt)
            if p.returncode == 0 and mo:
                break
        if p.returncode != 0 or not mo:
            raise Inconclusive("tlapm %s: proofs not checked (rc=%d):\n%s" % (module, p.returncode, txt[-2000:]))
        n = int(mo.group(1))
        self.tlc_runs.append({"name": "tlapm_" + module, "module": module, "cfg": "(tlapm proof)", "overrides": {},
                              "generated": 0, "distinct": 0, "seconds": round(time.time() - t, 1), "rc": 0,
                              "obligations_proved": n})
        if os.environ.get("VERIF_VERBOSE"):
            print("  tlapm %-26s %6.1fs  %d obligations" % (module, time.time() - t, n), file=sys.stderr)
        return n

    def collect_coverage(self, out):
        """VERIF_COVERAGE=1: keep, per expression location of the specification, the largest evaluation count
        seen in any TLC run of this check (tools/coverage.py reports the locations that stay at 0)."""
        pat = re.compile(r"^\s*\|*line (\d+), col (\d+) to line (\d+), col (\d+) of module (\w+): (\d+)(?::\d+)?\s*$")
        act = re.compile(r"^<(\w+) line (\d+), col (\d+) to line (\d+), col (\d+) of module (\w+)(?: \([\d ]+\))?>: (\d+)(?::(\d+))?\s*$")
        block = []
        with open(out, errors="replace") as fh:
            for line in fh:
                if line.startswith('"'):
                    continue
                if line.startswith("The coverage statistics at"):
                    block = []
                block.append(line)
        cov = getattr(self, "cov", None)
        if cov is None:
            cov = self.cov = {}
        for line in block:
            mo = pat.match(line)
            if mo:
                key = "%s:%s:%s-%s:%s" % (mo.group(5), mo.group(1), mo.group(2), mo.group(3), mo.group(4))
                cov[key] = max(cov.get(key, 0), int(mo.group(6)))
                continue
            mo = act.match(line)
            if mo:
                key = "%s:%s:%s-%s:%s <%s>" % (mo.group(6), mo.group(2), mo.group(3), mo.group(4), mo.group(5), mo.group(1))
                cov[key] = max(cov.get(key, 0), int(mo.group(8) or mo.group(7)))
        d = os.path.join(VERIF, ".work", "coverage")
        os.makedirs(d, exist_ok=True)
        json.dump(cov, open(os.path.join(d, self.prop + ".json"), "w"))

    def tlc_trace(self, module, cfg, trace_file, chunks=8, timeout=3000):
        """Trace validation: split the ndjson trace into chunks and validate them with
        independent single-worker TLC runs in parallel.  Returns the output files."""
        lines = open(trace_file).read().splitlines()
        if not lines:
            return []
        chunks = max(1, min(chunks, len(lines) // 50 + 1))
        size = (len(lines) + chunks - 1) // chunks
        jobs = []
        for n in range(chunks):
            part = lines[n * size:(n + 1) * size]
            if not part:
                continue
            path = "%s.part%d" % (trace_file, n)
            open(path, "w").write("\n".join(part) + "\n")

            def job(path=path, n=n):
                info = self.tlc(module, cfg, name="%s_part%d" % (cfg, n), workers=1, timeout=timeout,
                                env={"TRACE_FILE": path})
                return info["out"]
            jobs.append(job)
        return self.parallel(jobs, width=min(len(jobs), max(1, NCPU - 2)))

    def parallel(self, jobs, width=2):
        """jobs: list of callables; run `width` at a time; re-raise first failure."""
        with concurrent.futures.ThreadPoolExecutor(max_workers=width) as ex:
            futs = [ex.submit(j) for j in jobs]
            return [f.result() for f in futs]

    # ---------------------------------------------------------------- harness
    def harness(self, *argv, timeout=1800, binary=None, env=None):
        cmd = [binary or self.harness_bin] + [str(a) for a in argv]
        e = dict(os.environ)
        e.update(env or {})
        t = time.time()
        p = subprocess.run(cmd, cwd=self.scratch, capture_output=True, text=True, timeout=timeout, env=e)
        if os.environ.get("VERIF_VERBOSE"):
            print("  harness %-24s %6.1fs" % (argv[0], time.time() - t), file=sys.stderr)
        if p.returncode == 3:
            return p.stdout   # watchdog: hang recorded in the result file
        if p.returncode != 0:
            raise Inconclusive("harness %s failed (rc=%d):\n%s" % (argv[0], p.returncode, (p.stderr or p.stdout)[-3000:]))
        return p.stdout

    def load_result(self, path):
        r = json.load(open(os.path.join(self.scratch, path)))
        self.results.append(r)
        return r

    def path(self, name):
        return os.path.join(self.scratch, name)

    def cleanup(self):
        if os.environ.get("VERIF_KEEP"):
            print("scratch kept:", self.scratch, file=sys.stderr)
        else:
            shutil.rmtree(self.scratch, ignore_errors=True)


# ------------------------------------------------------------- known findings
def load_known():
    p = os.path.join(VERIF, "known_findings.json")
    if not os.path.exists(p):
        return []
    return json.load(open(p)).get("findings", [])


def match_known(v, known):
    """A violation matches an open known finding when property and kind agree and
    the finding's regular expression matches the concrete input text."""
    for k in known:
        if k.get("status") != "open" or k.get("property") != v.get("property"):
            continue
        if k.get("kind") and k["kind"] != v.get("kind"):
            continue
        pat = k.get("input_regex")
        if pat and not re.search(pat, v.get("input_text", "")):
            continue
        return k
    return None


# ------------------------------------------------------------------- finish
def finish(ctx, level, coverage_extra, assumptions, replay_fn=None, exhaustive=False):
    """Merge harness results, confirm violations by replay, write evidence,
    print VIOLATION / KNOWN-FINDING lines, return the exit status."""
    prop = ctx.prop
    known = load_known()
    viols = []
    for r in ctx.results:
        for v in r.get("violations", []):
            v.setdefault("property", prop)
            viols.append(v)
    n_total = sum(r.get("n_violations", 0) for r in ctx.results)
    reported, known_hits = [], {}
    os.makedirs(os.path.join(VERIF, "replays"), exist_ok=True)
    seen_reason = set()
    dropped = []
    for v in viols:
        if v.get("property") != prop:
            continue
        k = match_known(v, known)
        if k is not None:
            known_hits.setdefault(k["key"], k)
            continue
        sig = (v.get("kind"), re.sub(r"\d+", "N", v.get("reason", ""))[:80])
        if sig in seen_reason and len(reported) >= 3:
            continue
        seen_reason.add(sig)
        if len(reported) >= 10:
            continue
        h = hashlib.sha1(json.dumps(v, sort_keys=True).encode()).hexdigest()[:12]
        path = os.path.join(VERIF, "replays", "%s-%s.json" % (prop, h))
        rec = {"property": prop, "tier": ctx.tier, "seed": ctx.seed, "violation": v,
               "repro": "bin/check %s --replay %s" % (prop, path)}
        json.dump(rec, open(path, "w"), indent=1)
        if replay_fn is not None:
            confirmed = replay_fn(ctx, path)
            if not confirmed:
                ctx.notes.append("violation not reproduced from its replay file, dropped: %s (%s: %s)" %
                                 (path, v.get("kind"), v.get("reason", "")[:160]))
                dropped.append(path)
                os.unlink(path)
                continue
        reported.append(path)
    states = sum(t["distinct"] for t in ctx.tlc_runs)
    trans = sum(t["generated"] for t in ctx.tlc_runs)
    samples = []
    for r in ctx.results:
        samples += r.get("samples", [])[:4]
    checks = {}
    for r in ctx.results:
        for k, n in r.get("checks", {}).items():
            checks[k] = checks.get(k, 0) + n
    cov = {
        "states": states,
        "transitions": trans,
        "traces_validated_against_impl": sum(r.get("evaluations", 0) for r in ctx.results),
        "samples": samples[:12] or ["(none)"],
        "evaluations": sum(r.get("evaluations", 0) for r in ctx.results),
        "distinct_nontrivial": sum(r.get("distinct_nontrivial", 0) for r in ctx.results),
        "exhaustive": exhaustive,
        "checks_evaluated": checks,
        "conformance_drift": sum(r.get("conformance_drift", 0) for r in ctx.results),
        "tlc_runs": [{k: t[k] for k in ("name", "module", "cfg", "overrides", "generated", "distinct", "seconds")} for t in ctx.tlc_runs],
        "known_findings_hit": sorted(known_hits),
        "notes": ctx.notes + sum((r.get("notes") or [] for r in ctx.results), []),
    }
    cov.update(coverage_extra or {})
    ev = {
        "property_id": prop,
        "tier": ctx.tier,
        "seed": ctx.seed,
        "level": level,
        "coverage": cov,
        "assumptions": assumptions,
        "wall_s": round(time.time() - ctx.t0, 1),
        "violations": len(reported),
    }
    # selftests (seeded changes, mutants, benign refactors in a scratch tree) keep their evidence apart
    evdir = os.path.join(VERIF, "evidence") if REPO == "/repo" else os.path.join(VERIF, ".work", "evidence-scratch")
    os.makedirs(evdir, exist_ok=True)
    json.dump(ev, open(os.path.join(evdir, prop + ".json"), "w"), indent=1)
    for key, k in sorted(known_hits.items()):
        print("KNOWN-FINDING: property=%s %s" % (prop, k.get("what", key)))
    for p in reported:
        print("VIOLATION property=%s replay=%s" % (prop, p))
    if reported:
        print("%s: %d violating observations in total (first %d written as replay files)" % (prop, n_total, len(reported)))
        return 1
    if dropped:
        # observed once, not reproduced from the replay file: neither a violation nor a clean bill
        print("INCONCLUSIVE %s: %d observation(s) rejected by the specification could not be reproduced: %s" %
              (prop, len(dropped), "; ".join(n for n in ctx.notes if "not reproduced" in n)[:600]))
        return 2
    print("%s %s: held on everything explored (%d model states, %d executions of the real code, %.0fs)" %
          (prop, ctx.tier, states, cov["evaluations"], time.time() - ctx.t0))
    return 0
