#!/usr/bin/env python3
"""bin/check <ID> [--tier quick|thorough] [--replay FILE]

One entry per property; each builds the harness from /repo's working tree,
runs TLC on the families of the property (model -> code: CASE lines replayed
into the real code; code -> model: recorded observations validated by TLC),
and writes evidence/<ID>.json.
"""
import argparse
import json
import os
import sys
import traceback

sys.path.insert(0, os.path.dirname(os.path.abspath(__file__)))
import vlib
from vlib import Ctx, Inconclusive, finish

import props_lex
import props_prog
import props_expr
import props_plan
import props_sys

REGISTRY = {}
REGISTRY.update(props_lex.CHECKS)
REGISTRY.update(props_prog.CHECKS)
REGISTRY.update(props_expr.CHECKS)
REGISTRY.update(props_plan.CHECKS)
REGISTRY.update(props_sys.CHECKS)


def replay_fn(ctx, path):
    env = {}
    if ctx.prop == "C16":
        if not getattr(ctx, "cli_bin", None):
            ctx.cli_bin = ctx.build_cli()
        env["VERIF_CLI_BIN"] = ctx.cli_bin
    if ctx.prop == "C14":
        env["VERIF_RACE_BIN"] = ctx.build_harness(race=True)
    out = ctx.harness("replay", "--file", path, env=env)
    return any(l.startswith("REPRODUCED") for l in out.splitlines())


def main():
    ap = argparse.ArgumentParser()
    ap.add_argument("prop")
    ap.add_argument("--tier", default=os.environ.get("VERIF_TIER", "quick"))
    ap.add_argument("--replay")
    a = ap.parse_args()
    seed = int(os.environ.get("VERIF_SEED", "1") or "1")
    if a.prop not in REGISTRY:
        print("unknown property", a.prop, file=sys.stderr)
        return 2
    ctx = Ctx(a.prop, a.tier, seed)
    try:
        if a.replay:
            ctx.build_harness()
            if replay_fn(ctx, os.path.abspath(a.replay)):
                print("VIOLATION property=%s replay=%s" % (a.prop, os.path.abspath(a.replay)))
                return 1
            print("not reproduced on the current tree:", a.replay)
            return 0
        spec = REGISTRY[a.prop]
        extra = spec["run"](ctx)
        return finish(ctx, spec["level"], extra.get("coverage"), extra.get("assumptions", []),
                      replay_fn=replay_fn, exhaustive=extra.get("exhaustive", False))
    except Inconclusive as e:
        print("INCONCLUSIVE %s: %s" % (a.prop, e), file=sys.stderr)
        return 2
    except Exception:
        traceback.print_exc()
        return 2
    finally:
        ctx.cleanup()


if __name__ == "__main__":
    sys.exit(main())
