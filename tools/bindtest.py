#!/usr/bin/env python3
"""Binding demonstration for the code -> model direction: observations recorded from the real code are
corrupted one field at a time and sent through the same TLC trace specifications; a corrupted record must
be rejected.  (The other direction is demonstrated by the seeded changes and mutants: tools/sweep.py.)

usage: tools/bindtest.py        prints one line per trace specification; exit 0 iff every corruption that
                                 must be rejected was rejected."""
import copy, json, os, random, sys

sys.path.insert(0, os.path.dirname(os.path.abspath(__file__)))
from vlib import Ctx  # noqa: E402


def verdicts(ctx, module, cfg, path):
    out = {}
    for f in ctx.tlc_trace(module, cfg, path, chunks=8):
        for line in open(f, errors="replace"):
            s = line.strip()
            if s.startswith('"'):
                try:
                    s = json.loads(s)
                except Exception:
                    continue
            if s.startswith("TV "):
                v = json.loads(s[3:])
                out[v["id"]] = v
    return out


def cli(ctx):
    """C16: runs of the real binary on CliInput cases; corrupt exit status and blocks."""
    ctx.build_harness()
    bin_ = ctx.build_cli()
    io = ctx.tlc("CliInput", "cli_io", workers=8, timeout=3000)
    d = ctx.path("clitmp")
    os.makedirs(d, exist_ok=True)
    ctx.harness("cli-io-replay", "--bin", bin_, "--dir", d, "--cases", io["out"], "--seed", 1, "--sample", 97,
                "--trace", ctx.path("t.ndjson"), "--side", ctx.path("t.side"), "--out", "r.json", timeout=3000)
    os.unlink(io["out"])
    recs = [json.loads(l) for l in open(ctx.path("t.ndjson"))]
    base = verdicts(ctx, "TraceCli", "trace_cli", ctx.path("t.ndjson"))
    assert all(base[r["id"]]["verdict"] == "ok" for r in recs), "the unchanged observations must be accepted"
    corrupted, kinds = [], {}
    nid = 10 ** 6
    for r in recs:
        fault = r["io"][3]
        unreadable = fault.startswith("dir") or fault.startswith("miss")
        # exit status flipped: must be rejected when the input was unreadable (1 -> 0) or when a query failed;
        # 0 -> 1 is rejected unless the script leaves the exit status open (final let without semicolon)
        c = copy.deepcopy(r)
        c["obs"]["exit"] = 1 - c["obs"]["exit"]
        nid += 1
        c["id"] = nid
        failing = any(k in ("QBad", "LetBad") for k in r["ch"][0::3])
        if r["obs"]["exit"] == 1 and (unreadable or failing):
            kinds[nid] = "exit status 1 -> 0"
            corrupted.append(c)
        # a block dropped / an unrecognised block appended twice
        if r["obs"]["blocks"] and not unreadable:
            c = copy.deepcopy(r)
            c["obs"]["blocks"] = c["obs"]["blocks"][1:]
            nid += 1
            c["id"] = nid
            kinds[nid] = "first block of standard output dropped"
            corrupted.append(c)
        c = copy.deepcopy(r)
        c["obs"]["blocks"] = c["obs"]["blocks"] + [{"alts": []}, {"alts": []}]
        nid += 1
        c["id"] = nid
        kinds[nid] = "two foreign blocks appended to standard output"
        corrupted.append(c)
    open(ctx.path("c.ndjson"), "w").write("".join(json.dumps(c) + "\n" for c in corrupted))
    got = verdicts(ctx, "TraceCli", "trace_cli", ctx.path("c.ndjson"))
    bad = [kinds[i] for i in kinds if got[i]["verdict"] == "ok"]
    print("TraceCli: %d recorded runs accepted; %d corrupted copies (%s), %d rejected" %
          (len(recs), len(corrupted), ", ".join(sorted(set(kinds.values()))), len(corrupted) - len(bad)))
    return not bad


def conc(ctx):
    """C14: per-goroutine hook logs.  Logs of schedules that TLC itself drew from Conc.tla are accepted by
    TraceConc; with one event removed, one event duplicated into another goroutine, or two events swapped they
    are not."""
    sched = ctx.tlc("MCConc", "conc_sched", name="bind_sched", workers=2, simulate="num=40", depth=100, timeout=600, must_finish=False)
    recs = []
    for line in open(sched["out"], errors="replace"):
        s = line.strip()
        if s.startswith('"'):
            try:
                s = json.loads(s)
            except Exception:
                continue
        if s.startswith("SCHED "):
            hist = json.loads(s[6:])["hist"]
            logs = {}
            for g, label in hist:
                logs.setdefault(g, []).append(label)
            recs.append({"id": len(recs) + 1, "logs": logs})
    os.unlink(sched["out"])
    recs = recs[:60]
    open(ctx.path("conc.ndjson"), "w").write("".join(json.dumps(r) + "\n" for r in recs))
    acc = verdicts(ctx, "TraceConc", "trace_conc", ctx.path("conc.ndjson"))
    assert len(acc) == len(recs), "logs of the model's own schedules must be accepted (%d of %d)" % (len(acc), len(recs))
    corrupted, kinds = [], {}
    nid = 10 ** 6
    rnd = random.Random(1)
    for r in recs:
        for kind in ("one event removed", "InitStart duplicated into another goroutine", "two neighbouring events swapped"):
            c = copy.deepcopy(r)
            gs = sorted(g for g in c["logs"] if len(c["logs"][g]) >= 3)
            g = rnd.choice(gs)
            log = c["logs"][g]
            if kind == "one event removed":
                del log[rnd.randrange(len(log))]
            elif kind.startswith("InitStart"):
                others = [h for h in gs if "InitStart" not in c["logs"][h] and "OnceEnter" in c["logs"][h]]
                if not others:
                    continue
                h = others[0]
                i = c["logs"][h].index("OnceEnter")
                c["logs"][h][i + 1:i + 1] = ["InitStart", "InitEnd"]
            else:
                i = rnd.randrange(len(log) - 1)
                if log[i] == log[i + 1]:
                    continue
                log[i], log[i + 1] = log[i + 1], log[i]
            nid += 1
            c["id"] = nid
            kinds[nid] = kind
            corrupted.append(c)
    open(ctx.path("concc.ndjson"), "w").write("".join(json.dumps(c) + "\n" for c in corrupted))
    got = verdicts(ctx, "TraceConc", "trace_conc", ctx.path("concc.ndjson"))
    bad = [kinds[i] for i in kinds if i in got]
    print("TraceConc: %d logs of TLC-drawn schedules accepted; %d corrupted copies (%s), %d rejected%s" %
          (len(recs), len(corrupted), ", ".join(sorted(set(kinds.values()))), len(corrupted) - len(bad),
           "" if not bad else "; accepted: " + ", ".join(sorted(set(bad)))))
    return not bad


def main():
    random.seed(1)
    ctx = Ctx("C16", "quick", 1)
    ok = True
    try:
        ok = cli(ctx) and ok
        ok = conc(ctx) and ok
    finally:
        ctx.cleanup()
    sys.exit(0 if ok else 1)


main()
