#!/usr/bin/env python3
"""Regression of the machinery itself: every stored seeded change must still be detected by the
quick check of its property, every stored benign refactor must stay quiet.

usage: tools/sweep.py [seeded|mutants|benign|all] [filter-substring]
Runs in the scratch worktree /tmp/repo-seedtest (created from /repo HEAD when absent), never in /repo.
Prints one line per patch; exit 0 iff everything is as expected."""
import json, os, subprocess, sys, time

ROOT = os.path.dirname(os.path.dirname(os.path.abspath(__file__)))
REPO = os.environ.get("SWEEP_REPO", "/tmp/repo-seedtest")   # a second sweep at the same time needs its own worktree
env = dict(os.environ, GOFLAGS="-mod=mod", GOPROXY="off", GOSUMDB="off", GOTOOLCHAIN="local", VERIF_REPO=REPO)

BENIGN_PROPS = {
    "b1_": ["C01", "C02", "C03", "C05"], "b2_": ["C01", "C06", "C04", "C05"], "b3_": ["C02", "C03", "C05"],
    "b4_": ["C01", "C04", "C05", "C02"], "b5_": ["C10", "C13", "C16"], "b6_": ["C11", "C12"], "b7_": ["C16"], "b8_": ["C14", "C13", "C01"],
    "r1_": ["C01", "C02", "C03", "C04", "C05", "C06", "C13", "C12", "C14", "C16"],
    "r2_": ["C09", "C15", "C07", "C08", "C10", "C11", "C12", "C13"],
    "r3_": ["C16", "C14", "C13", "C06", "C12"],
    "r5_": ["C06", "C01", "C13", "C14", "C12", "C05", "C04"],
    "r6_": ["C03", "C05", "C02", "C01", "C06", "C13", "C12"],
    "r7_": ["C02", "C05", "C03", "C01", "C13", "C04"],
    "r4_": ["C01", "C02", "C03", "C04", "C05", "C06", "C13", "C12", "C16"],
}


def sh(cmd):
    return subprocess.run(cmd, shell=True, capture_output=True, text=True, errors="replace", env=env)


def reset():
    sh("git -C %s checkout -- . && git -C %s clean -fdq" % (REPO, REPO))


def main():
    what = sys.argv[1] if len(sys.argv) > 1 else "all"
    flt = sys.argv[2] if len(sys.argv) > 2 else ""
    if not os.path.isdir(REPO):
        sh("git -C /repo worktree add --detach %s HEAD" % REPO)
    sh("git -C %s checkout -q --detach %s" % (REPO, sh("git -C /repo rev-parse HEAD").stdout.strip()))
    jobs = []
    if what in ("seeded", "all"):
        for name in sorted(os.listdir(os.path.join(ROOT, "seeded"))):
            meta = json.load(open(os.path.join(ROOT, "seeded", name, "meta.json")))
            jobs.append((os.path.join(ROOT, "seeded", name, "patch.diff"), [meta["property"]], 1, name))
    if what in ("mutants", "all"):
        # hand-written mutants (c<NN>_*.diff) and reverts of the repairs (revert_<commit>_*.diff: the properties of the
        # fixed entries of known_findings.json with that commit)
        d = os.path.join(ROOT, "selftest", "mutants")
        fixed = {}
        for e in json.load(open(os.path.join(ROOT, "known_findings.json")))["findings"]:
            if e.get("commit"):
                fixed.setdefault(e["commit"][:7], []).append(e["property"])
        for name in sorted(os.listdir(d)):
            if name.startswith("revert_"):
                props = fixed.get(name.split("_")[1][:7], [])
                for p_ in props:
                    jobs.append((os.path.join(d, name), [p_], 1, name))
            else:
                jobs.append((os.path.join(d, name), ["C" + name[1:3]], 1, name))
    if what in ("benign", "all"):
        d = os.path.join(ROOT, "selftest", "benign")
        for name in sorted(os.listdir(d)):
            props = None
            for pre, ps in BENIGN_PROPS.items():
                if name.startswith(pre):
                    props = ps
            if props is None:
                # b<N>_<props>_...: properties are named in the header comment of the patch, else all program-level ones
                props = ["C01", "C02", "C05", "C06", "C13"]
            jobs.append((os.path.join(d, name), props, 0, name))
    bad = 0
    for patch, props, want, name in jobs:
        if flt and flt not in name:
            continue
        reset()
        r = sh("git -C %s apply %s" % (REPO, patch))
        if r.returncode:
            print("%-55s patch does not apply: %s" % (name, r.stderr.strip()[:200]))
            bad += 1
            continue
        for p in props:
            t = time.time()
            c = sh("cd %s && bin/check %s --tier quick" % (ROOT, p))
            ok = c.returncode == want
            if not ok:
                bad += 1
            print("%-55s %s rc=%d %s %.0fs" % (name, p, c.returncode, "as expected" if ok else "UNEXPECTED (want %d)" % want, time.time() - t),
                  "" if ok else (c.stdout + c.stderr)[-400:], flush=True)
        reset()
    sys.exit(1 if bad else 0)


main()
