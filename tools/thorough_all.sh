#!/bin/sh
# run every thorough check once (calibration); usage: tools/thorough_all.sh [ids...]
cd "$(dirname "$0")/.."
ids="${@:-C09 C15 C07 C08 C10 C11 C12 C13 C01 C06 C04 C02 C03 C05 C14 C16}"
for id in $ids; do
  s=$(date +%s)
  bin/check $id --tier thorough > /tmp/thorough_$id.log 2>&1
  rc=$?
  e=$(date +%s)
  echo "$id rc=$rc $((e-s))s $(tail -1 /tmp/thorough_$id.log | cut -c1-200)"
done
