#!/usr/bin/env python3
"""Confirm a seeded change produced by a sub-agent and store it under seeded/<name>/.
usage: tools/seedtest.py <name> <prop> <outdir> [<check ids>...]
Steps: patch applies to /repo; repo builds; repo tests pass with it; demo fails with it and passes without;
named checks run against it; /repo restored."""
import json, os, shutil, subprocess, sys
name, prop, outdir = sys.argv[1:4]
# By default the patch is applied to /repo itself and undone afterwards.  With SEEDTEST_REPO=<dir> a scratch
# worktree of /repo is used instead (checks run with VERIF_REPO=<dir>), so that other runs against /repo are not disturbed.
REPO = os.environ.get("SEEDTEST_REPO", "/repo")
checks = sys.argv[4:] or [prop]
env = dict(os.environ, GOFLAGS="-mod=mod", GOPROXY="off", GOSUMDB="off", GOTOOLCHAIN="local", PQL_SRC=REPO, VERIF_REPO=REPO)
def sh(cmd, **kw): return subprocess.run(cmd, shell=True, capture_output=True, text=True, errors="replace", env=env, **kw)
if REPO != "/repo" and not os.path.isdir(REPO):
    sh("git -C /repo worktree add --detach %s HEAD" % REPO)
assert sh("git -C %s status --porcelain" % REPO).stdout.strip() == "", REPO + " not clean"
patch = os.path.join(outdir, "patch.diff")
dst = "/verif/seeded/%s" % name
os.makedirs(dst, exist_ok=True)
meta = {"property": prop, "patch": "patch.diff", "ran": [], "applied_to": REPO}
r = sh("git -C %s apply --check %s" % (REPO, patch))
if r.returncode: print("patch does not apply:", r.stderr); sys.exit(2)
# demo: point its replace at /repo
demo_src = os.path.join(outdir, "demo")
demo = "/tmp/seedtest-demo-" + name
shutil.rmtree(demo, ignore_errors=True)
has_demo = os.path.isdir(demo_src)
if has_demo:
    shutil.copytree(demo_src, demo)
    gm = os.path.join(demo, "go.mod")
    if os.path.exists(gm):
        s = open(gm).read()
        import re
        s = re.sub(r"=> /tmp/seed[A-Za-z0-9-]+", "=> " + REPO, s)
        open(gm, "w").write(s)
    shutil.copy(os.path.join(REPO, "go.sum"), os.path.join(demo, "go.sum"))
def run_demo():
    if not has_demo: return None
    has_tests = any(f.endswith("_test.go") for _, _, fs in os.walk(demo) for f in fs)
    if has_tests:
        t = sh("cd %s && (go test -count=1 ./... 2>&1 || true) | tail -15" % demo)
        ok = "FAIL" not in t.stdout and "ok" in t.stdout
        return ok, t.stdout[-600:]
    t = sh("cd %s && go run . 2>&1 | tail -15" % demo)     # a program: exit status decides
    t2 = sh("cd %s && go run . >/dev/null 2>&1" % demo)
    return t2.returncode == 0, t.stdout[-600:]
base_demo = run_demo()
sh("git -C %s apply %s" % (REPO, patch))
try:
    t = sh("cd %s && go build ./... && go test -mod=mod -vet=off -count=1 ./... 2>&1 | tail -5" % REPO)
    tests_ok = t.returncode == 0 and "FAIL" not in t.stdout
    meta["repo_tests_pass_with_change"] = tests_ok
    print("repo tests with change:", "pass" if tests_ok else "FAIL " + t.stdout)
    with_demo = run_demo()
    if has_demo:
        meta["demo_passes_without_change"] = base_demo[0]
        meta["demo_fails_with_change"] = not with_demo[0]
        print("demo without change:", "pass" if base_demo[0] else "FAIL", "| with change:", "pass" if with_demo[0] else "FAIL")
    for c in checks:
        p = sh("cd /verif && bin/check %s --tier quick" % c)
        verdict = {1: "DETECTED", 0: "MISSED"}.get(p.returncode, "INCONCLUSIVE")
        det = []
        for l in [l for l in p.stdout.splitlines() if l.startswith("VIOLATION")][:3]:
            f = l.split("replay=")[-1]
            try:
                v = json.load(open(f))["violation"]
                det.append({"kind": v["kind"], "input": v.get("input_text", "")[:160], "reason": v["reason"][:200]})
            except Exception:
                pass
        meta["ran"].append({"check": "bin/check %s --tier quick" % c, "exit": p.returncode, "verdict": verdict, "first_violations": det})
        print(c, verdict, (p.stderr[-300:] if p.returncode == 2 else ""))
        for d in det[:2]: print("    ", d["kind"], d["input"][:90], "|", d["reason"][:120])
finally:
    sh("git -C %s checkout -- ." % REPO)
    shutil.rmtree(demo, ignore_errors=True)
shutil.copy(patch, os.path.join(dst, "patch.diff"))
if has_demo:
    shutil.rmtree(os.path.join(dst, "demo"), ignore_errors=True)
    shutil.copytree(demo_src, os.path.join(dst, "demo"))
notes = os.path.join(outdir, "NOTES.md")
if os.path.exists(notes): shutil.copy(notes, os.path.join(dst, "NOTES.md"))
mp = os.path.join(dst, "meta.json")
old = json.load(open(mp)) if os.path.exists(mp) else {}
old.update(meta)
json.dump(old, open(mp, "w"), indent=1)
