#!/usr/bin/env python3
"""selftest: a property-preserving change must not raise an alarm.
usage: tools/benigntest.py <patch.diff> <prop>...   (uses the scratch worktree /tmp/repo-seedtest)"""
import subprocess, sys, os
patch = os.path.abspath(sys.argv[1]); props = sys.argv[2:]
REPO = "/tmp/repo-seedtest"
env = dict(os.environ, GOFLAGS="-mod=mod", GOPROXY="off", GOSUMDB="off", GOTOOLCHAIN="local", VERIF_REPO=REPO)
def sh(cmd): return subprocess.run(cmd, shell=True, capture_output=True, text=True, errors="replace", env=env)
if not os.path.isdir(REPO): sh("git -C /repo worktree add --detach %s HEAD" % REPO)
sh("git -C %s checkout -- . && git -C %s clean -fdq" % (REPO, REPO))
r = sh("git -C %s apply %s" % (REPO, patch))
if r.returncode: print("patch does not apply", r.stderr); sys.exit(2)
try:
    for p in props:
        c = sh("cd /verif && bin/check %s --tier quick" % p)
        print("%s rc=%d %s" % (p, c.returncode, "quiet (ok)" if c.returncode == 0 else "ALARM" if c.returncode == 1 else "INCONCLUSIVE"), (c.stdout + c.stderr)[-300:] if c.returncode else "")
finally:
    sh("git -C %s checkout -- . && git -C %s clean -fdq" % (REPO, REPO))
