#!/usr/bin/env python3
"""Writes MANIFEST.json from the table below (kept here so the file is always
schema-valid and consistent with tools/check.py)."""
import json
import os
import sys

sys.path.insert(0, os.path.dirname(os.path.abspath(__file__)))
VERIF = os.path.dirname(os.path.dirname(os.path.abspath(__file__)))

CLAIMED = {
    "C09": {
        "technique": "TLA+ lexer machine checked against a declarative maximal-munch reference by TLC; every terminal state replayed into parser.Scan; random inputs trace-validated by TLC",
        "text": "Exhaustive within bounds: TLC enumerates every string over six family alphabets up to 5-6 characters (2-3 over all 44 classes) as terminal states of a rune-by-rune model of the scanner, checks the model against the declarative longest-lexeme reference and the partition/rescan invariants in every state, and each terminal state is replayed into the real Scan with several byte concretisations; random byte strings and the repository's queries are validated in the other direction by TLC.",
        "note": "Trusts TLC, the class<->byte mapping of the harness (round-trip checked), math/big for numeric values. Error-token messages are not compared.",
        "ref": "DESIGN.md 3.1, 4 (C09)",
    },
    "C15": {
        "technique": "TLA+ split relation over the lexer reference checked by TLC on all short strings; replay into SplitStatements/Scan/Parse; TLC trace validation of random inputs",
        "text": "TLC proves on every enumerated string the locality theorem behind splitting (each piece scanned alone has the tokens it had in context, one more piece than semicolon tokens); the predicted piece extents are replayed into the real SplitStatements, Scan and Parse for every enumerated string and for random inputs validated by TLC.",
        "note": "Trusts TLC and the class<->byte mapping. Parse agreement is checked on sources that parse without error.",
        "ref": "DESIGN.md 3.1, 4 (C15)",
    },
}

CLAIMED.update({
    "C07": {
        "technique": "TLA+ grammar (trees, precedence levels, canonical printing) and a TLA+ transcription of the recursive-descent parser (ParseMachine) checked against it by TLC; every generated program replayed into parser.Parse in several layouts; accepted sources trace-validated by TLC (StmtOK)",
        "text": "Design level: TLC checks that the parser model (cursor with end-of-input latch, split/endSplit, not-found vs opaque errors, back-tracking, precedence climbing) returns exactly the generated tree for every program of every family. Conformance: TLC enumerates the program families of spec/GenProg.tla exhaustively (all pairs of the 16 binary-level operators in both groupings with decorated operands, triples, sign/index/call/paren nests in every operand context, an expression menu in every expression position, every operator with every combination of optional parts, operator and statement sequences) plus random deep trees; each terminal state carries the tree the grammar dictates and is parsed by the real Parse in 4-12 layouts with keyword synonyms; trees must be equal field by field. Real parses of other accepted sources are validated by TLC against the grammar's well-formedness predicate.",
        "note": "Trusts TLC, the token->text renderer and the AST->record projection of the harness, and the lexer (C09).",
        "ref": "DESIGN.md 3.2, 4 (C07)",
    },
    "C08": {
        "technique": "TLA+ token-accounting relation (Accounts/Align over Toks): at design level on everything the parser model (ParseMachine) accepts among all single-token edits; on the real code evaluated by TLC for every source the real Parse accepts among the same edits and random token soups",
        "text": "TLC generates every single-token corruption (delete, duplicate, transpose, truncate, insert from a 8-22 token menu incl. error tokens) of every base program of the operator/position families, plus the groups family (an operand followed by two or three bracketed / dotted groups, each well formed or with junk inside, in five hosts: errors of an earlier group must not be forgotten); each is parsed for real; for every accepted source the (Scan tokens, returned tree) observation is validated by TLC against Accounts: re-printing the tree must give back the tokens, only the two documented commas and empty statements may be absent.",
        "note": "Trusts TLC, the AST->record projection, and Scan for the significant tokens (C09). A Go transcription of the relation pre-filters; TLC decides and must agree with it.",
        "ref": "DESIGN.md 3.2, 4 (C08)",
    },
    "C10": {
        "technique": "TLA+ Toks assigns every token an owner path and role; TLC-generated programs replayed; every Span()/span field of the real tree compared with the extent of the owner's tokens; error positions checked on corrupted sources",
        "text": "For every generated program and layout (multi-line, tabs, comments, CRLF) each of the real tree's Span() results and recorded part spans must equal the byte extent of the tokens the specification assigns to that node / part (invalid span for absent parts); implicit column names must be the source slice; for failed parses and compiles every span lies inside the source and every line:column prefix points into it.",
        "note": "Trusts TLC, the renderer's byte offsets and the node/path enumeration of the harness.",
        "ref": "DESIGN.md 4 (C10)",
    },
    "C11": {
        "technique": "TLA+ model of Walk (explicit-stack machine vs declarative child relation, spec/Walk.tla) checked by TLC on every generated statement; the model's visit log travels with each case and the real parser.Walk must visit the same nodes; pruning at every node",
        "text": "For every generated statement the real Walk runs with an always-true visitor and with a visitor returning false at each node in turn: every identifier and expression node exactly once, no node twice, never nil, ancestors first, pruned set = all minus strict descendants; panics are caught.",
        "note": "Sibling order unconstrained. Node enumeration by the harness mirrors Grammar.tla paths.",
        "ref": "DESIGN.md 3.3, 4 (C11)",
    },
    "C12": {
        "technique": "TLC-generated programs, planted violations, all single-token corruptions and pathological nestings (depth up to 2000) plus random byte/token soups run through Scan/SplitStatements/Parse/Walk/Compile under a panic trap and a watchdog",
        "text": "All generator families, the stress family (nesting of parentheses, calls, indexes, signs, joins, unbalanced brackets, operator/pipe/comma/error-token cascades to depth 500/2000) and random inputs are executed for real with three parameter maps; a recovered panic or a call exceeding the watchdog limit is a violation, confirmed by replay. One open known finding (exponential let chains) is probed in a child process and reported as KNOWN-FINDING.",
        "note": "Wall-clock limit 15 s per call (measured, not modelled).",
        "ref": "DESIGN.md 4 (C12)",
    },
    "C13": {
        "technique": "TLA+ plant family: each documented Compile rule broken at every expression slot and depth next to its rule-abiding twin; TLC enumerates, harness compiles for real; either/or contract on every input of every family",
        "text": "TLC enumerates 11 built-ins x arities 0..4 x 13 expression slots x 7 nesting depths x (bare and deep) 17 pipeline contexts (the operator alone, after / before count, take, sort, top, project, summarize, join, as, where), $left/$right in and outside join conditions, let values of every forbidden and allowed shape, zero/one/two queries, join kinds, row-count literals; the specification states for each whether Compile must fail; the real Compile must agree, and on every input of every family (incl. corruptions and soups) returns exactly one of SQL and error.",
        "note": "Render property values are outside the planted positions (the documentation does not say they are compiled).",
        "ref": "DESIGN.md 3.7, 4 (C13)",
    },
})

CLAIMED.update({
    "C01": {
        "technique": "TLA+ writer model (ExprEmit) checked by TLC against value semantics (ExprSem) through a TLA+ SQL reader (Sql) under two precedence tables; every real compilation read and evaluated by TLC (trace validation)",
        "text": "Design level: for every expression of the families (all pairs of 16 binary-level operators x both groupings x decorated operands, triples in all five groupings with minimal and redundant parentheses, sign/index/call/not/strcat/paren nests in nine operand contexts, a 40-expression menu incl. every built-in in 21 expression positions, random deep trees) TLC checks that the writer model's SQL, read back under the ClickHouse and the PostgreSQL precedence tables, has the PQL value on every row of four value domains (NULL/typing, three-valued logic, integers, case). Conformance: the same programs are compiled by the real Compile; TLC reads each real statement, locates the expression slot and evaluates it against the PQL meaning on every row; comments or unlexable output and non-termination are violations by themselves.",
        "note": "No SQL engine offline: the dialect is the specification in Sql.tla / ExprSem.tla. Uninterpreted functions are opaque terms (equal iff same function, same arguments, same order).",
        "ref": "DESIGN.md 3.4, 3.5, 4 (C01)",
    },
    "C06": {
        "technique": "TLA+ lexical-scoping semantics (fold of parameters and lets) vs writer model with scope, checked by TLC; real compilations with parameter maps read and evaluated by TLC with placeholders bound",
        "text": "TLC enumerates 10 binding set-ups x 9 value shapes x 20 use sites x 11 positions (incl. row counts, join conditions and the condition of a join nested in another join's right-hand pipeline); design level: the writer model with its token scope agrees with lexical scoping on every row and placeholder valuation; conformance: each program is compiled for real with its parameter map and the SQL slot is evaluated by TLC; lets that are unused or follow the query must leave the output text unchanged.",
        "note": "Parameter snippets are single placeholders (verbatim insertion is by contract).",
        "ref": "DESIGN.md 3.7, 4 (C06)",
    },
})

CLAIMED.update({
    "C04": {
        "technique": "TLA+ specification of the target dialect's lexical rules (SqlLex, standard and ClickHouse) and of pql's quoting functions checked by TLC for every short content; contents replayed at every literal/name position of real programs, real SQL lexed under both rule sets and compared with a plain-content baseline",
        "text": "Design level: TLC shows for all contents over 17 symbols up to length 3/4 that quoteSQLString/quoteIdentifier output is exactly one token under both rule sets and decodes to the content (negative control: the pinned quoting without backslash escape must fail). Conformance: each content and 4,000/200,000 random contents are placed at 15 string and 16 name positions (table, column, qualified part, aliases, implicit alias, as, join key, sort key, render chart type / property name / property value, call argument, index key, in list, let value); the real SQL's token structure must equal that of the same program with a plain content and the content tokens must decode to the content; number spellings (decimal, hex, leading zeros/dot, exponent) must denote the same value.",
        "note": "Target dialect = ClickHouse for decoding; structure invariance under standard rules too. The harness's SQL lexer is validated against SqlLex.tla on every enumerated text.",
        "ref": "DESIGN.md 3.4, 4 (C04)",
    },
})

CLAIMED.update({
    "C02": {
        "technique": "TLA+ model of the subquery split algorithm (QuerySplit) checked by TLC after every operator against a left-to-right relational interpreter through a TLA+ SQL statement reader and evaluator on all small databases; every real compilation validated by TLC with the same relation",
        "text": "Design level: every sequence of up to 3/4 operators from a 25-entry menu, and every sequence of up to 4/5 operators from the nine sort / filter / limit / top instances, is a state; after each operator TLC checks that the model's statement, read by Sql!ReadStmt and evaluated by Rel!SqlSem, returns on each of the 91 (thorough: also 820) instances of T(a,b) over {NULL,1,2} exactly what Rel!PipelineSem returns for the operators applied left to right: same column names in the same order, same rows, in the order classes a sort determines. Conformance: every sequence is compiled by the real Compile; TLC reads the real statement and evaluates the same relation; structural difference from the model is reported as drift only.",
        "note": "The dialect's order propagation through sub-selects is an assumption of the specification (DESIGN.md 9). Results are compared where determined (no limit through tied rows).",
        "ref": "DESIGN.md 3.6, 4 (C02)",
    },
    "C03": {
        "technique": "as C02, on join families: left prefix x 20 join forms (incl. nested default-kind joins after a filter) x following operator x second join, three base tables with NULL / duplicate (doubled rows) / unmatched keys",
        "text": "TLC checks at design level and on the real statements that the join source (DISTINCT for innerunique, JOIN / LEFT JOIN, $left/$right aliases, bare-key rewrite, AND-ed conditions, nested right-hand pipelines and joins, operators after the join) returns the reference join of the pipeline so far with the right-hand pipeline, on all instances of T(k,a), B(k,b), C(k,c) with up to 1 (thorough 2) rows each.",
        "note": "Join conditions are compared by truth. Programs refer after a join only to unambiguous columns.",
        "ref": "DESIGN.md 3.6, 4 (C03)",
    },
    "C05": {
        "technique": "TLA+ statement grammar and name-resolution predicate (Sql!ReadStmt, PlanCheck!WellFormed) evaluated by TLC on every statement the real Compile returns for generated programs, accepted corruptions and random token soups",
        "text": "Every successful compilation among all generator families, all single-token corruptions that still compile and 30,000/300,000 random token soups is checked: exactly one final semicolon, no comment / unlexable piece / placeholder, balanced brackets (harness), and by TLC: reads as [WITH name AS (select), ...] select identically under both precedence tables, CTE names unique, every FROM/JOIN reads a table of the source or an earlier CTE, no CTE unused.",
        "note": "A pass-through function whose name is an SQL keyword is read as a function call. Colliding user-chosen `as` names are outside the claim.",
        "ref": "DESIGN.md 3.4, 4 (C05)",
    },
})

CLAIMED.update({
    "C14": {
        "technique": "TLA+ model of the goroutine-level steps of Compile / initKnownFunctions (Conc) model-checked over all interleavings with negative controls, and its invariants proved inductive for any number of goroutines and calls with the TLA+ proof system (ConcProof, 258 obligations); TLC-drawn schedules replayed on real goroutines in a -race build; recorded hook logs validated by TLC (TraceConc)",
        "text": "TLC explores every interleaving of three goroutines issuing five calls at hook-point granularity and checks NoRace, InitOnce, ParamsUnchanged, ResultIsFunctionOfInput and deadlock freedom; the two negative-control configurations must fail. Schedules from tlc -simulate are replayed by the clock (no hand-offs that would hide races) on the real code built with -race, each round starting from a never-used function table; per-goroutine hook logs of free rounds are validated by TLC as behaviours of the model (a rejected log is reported as conformance drift: the property speaks about results, races and parameter maps); the same invariants are proved for any number of goroutines and calls by the TLA+ proof system (ConcProof.tla); bursts of 2/8/64 goroutines with mixed Compile/Parse/Scan calls run in fresh processes. Results must equal the same call alone for nil/zero/empty options, every (source, parameter contents) pair must give one result over the whole run incl. fresh processes, a call must show its own parameter snippet, parameter maps must be unchanged, race reports are violations.",
        "note": "Data races are detected by the Go race detector on the schedules and bursts the run executes; hooks exist only under build tag verif.",
        "ref": "DESIGN.md 3.8, 4 (C14), 5",
    },
    "C16": {
        "technique": "TLA+ model of the command-line loop (Cli) checked against the script-level reference for every script x layout, with a negative control; every terminal state concretised and run through the cmd/pql binary built from the working tree; TLA+ model of the input plumbing (CliInput: channels, cut points, unreadable and missing arguments) with the runs of the real binary judged by TLC (TraceCli)",
        "text": "TLC enumerates every script of up to 3/4 statements over five statement kinds in every line layout and checks that the line-loop model prints exactly what the script demands (the pinned loop without the let prelude at end of input is a failing negative control). Each terminal state is concretised with lets whose values the queries use, semicolons inside strings and comments and several kinds of invalid statements, and fed to the real binary via stdin, one file, four files cut at arbitrary bytes, or with -o; stdout must be the library's SQL for each query with the accepted lets in scope followed by a blank line, exit status and stderr line count as the model says; plus an over-long line and an unreadable file. CliInput.tla: stdin / one file / three files cut at every pair of symbol boundaries / '-' among files / -o, with a directory (opens, cannot be read) or a missing path at every argument position; TLC checks the model of makeInput, reader, line scanner and loop against the judge and that the judge is not vacuous; the binary is run on real files and directories, each block of its standard output is identified as (statement, lets in scope), and TLC judges every observation (exit status non-zero and stderr non-empty when input could not be read, nothing printed that the readable text does not demand).",
        "note": "Empty statements between semicolons and an unterminated final let may or may not count as failures; how many of the completely read statements are printed before an unreadable argument is left open (left open by the property).",
        "ref": "DESIGN.md 3.9, 4 (C16)",
    },
})

NOT_YET = {}


def main():
    props = [json.loads(l) for l in open(os.path.join(VERIF, "properties.jsonl"))]
    checks, na = [], []
    for p in props:
        pid = p["id"]
        if pid in CLAIMED:
            c = CLAIMED[pid]
            checks.append({
                "property_id": pid,
                "quick_cmd": "bin/check %s --tier quick" % pid,
                "thorough_cmd": "bin/check %s --tier thorough" % pid,
                "evidence_file": "/verif/evidence/%s.json" % pid,
                "replay_cmd_template": "bin/check %s --replay {path}" % pid,
                "engine": "tlc+harness",
                "level_claimed": {"category": "model_checking", "text": c["text"], "design_ref": c["ref"]},
                "level_note": c["note"],
                "technique": c["technique"],
            })
        else:
            na.append({"property_id": pid, "reason": NOT_YET.get(pid, "check not built yet in this revision of /verif (planned, see DESIGN.md section 4); not claimed until its check runs green")})
    hooks_commits = []
    hc = os.path.join(VERIF, "hooks_commits.txt")
    if os.path.exists(hc):
        hooks_commits = [l.split()[0] for l in open(hc) if l.strip()]
    m = {
        "version": 1,
        "setup_cmd": "sh tools/setup.sh",
        "hooks": {
            "guard": "verif",
            "enable": "go build -tags verif (the harness module replaces github.com/runreveal/pql with /repo)",
            "baseline_off_cmd": "cd /repo && go test -mod=mod -json -vet=off -count=1 -timeout 25m ./...",
            "source_commits": hooks_commits,
            "add_only": True,
        },
        "engines": [
            {"name": "tlc+harness", "path": "tools/check.py", "serves_properties": sorted(CLAIMED),
             "kind_free_text": "TLA+ specification (spec/*.tla) model-checked by TLC; terminal states replayed into the real Go code by harness/, real observations validated back by TLC trace specifications"},
        ],
        "checks": checks,
        "not_applicable": na,
        "notes": "Exit 0 held / 1 VIOLATION / 2 inconclusive (infrastructure). known_findings.json lists repaired and open defects.",
    }
    json.dump(m, open(os.path.join(VERIF, "MANIFEST.json"), "w"), indent=1)
    print("MANIFEST.json: %d claimed, %d not claimed" % (len(checks), len(na)))


if __name__ == "__main__":
    main()
