#!/usr/bin/env python3
"""Writes MANIFEST.json from the table below (kept here so the file is always
schema-valid and consistent with tools/check.py)."""
import json
import os
import sys

sys.path.insert(0, os.path.dirname(os.path.abspath(__file__)))
VERIF = os.path.dirname(os.path.dirname(os.path.abspath(__file__)))

CLAIMED = {
    "C09": {
        "technique": "TLA+ lexer machine checked against a declarative maximal-munch reference by TLC; every terminal state replayed into parser.Scan; random inputs trace-validated by TLC",
        "text": "Exhaustive within bounds: TLC enumerates every string over six family alphabets up to 5-6 characters (2-3 over all 44 classes) as terminal states of a rune-by-rune model of the scanner, checks the model against the declarative longest-lexeme reference and the partition/rescan invariants in every state, and each terminal state is replayed into the real Scan with several byte concretisations; random byte strings and the repository's queries are validated in the other direction by TLC.",
        "note": "Trusts TLC, the class<->byte mapping of the harness (round-trip checked), math/big for numeric values. Error-token messages are not compared.",
        "ref": "DESIGN.md 3.1, 4 (C09)",
    },
    "C15": {
        "technique": "TLA+ split relation over the lexer reference checked by TLC on all short strings; replay into SplitStatements/Scan/Parse; TLC trace validation of random inputs",
        "text": "TLC proves on every enumerated string the locality theorem behind splitting (each piece scanned alone has the tokens it had in context, one more piece than semicolon tokens); the predicted piece extents are replayed into the real SplitStatements, Scan and Parse for every enumerated string and for random inputs validated by TLC.",
        "note": "Trusts TLC and the class<->byte mapping. Parse agreement is checked on sources that parse without error.",
        "ref": "DESIGN.md 3.1, 4 (C15)",
    },
}

NOT_YET = {}


def main():
    props = [json.loads(l) for l in open(os.path.join(VERIF, "properties.jsonl"))]
    checks, na = [], []
    for p in props:
        pid = p["id"]
        if pid in CLAIMED:
            c = CLAIMED[pid]
            checks.append({
                "property_id": pid,
                "quick_cmd": "bin/check %s --tier quick" % pid,
                "thorough_cmd": "bin/check %s --tier thorough" % pid,
                "evidence_file": "/verif/evidence/%s.json" % pid,
                "replay_cmd_template": "bin/check %s --replay {path}" % pid,
                "engine": "tlc+harness",
                "level_claimed": {"category": "model_checking", "text": c["text"], "design_ref": c["ref"]},
                "level_note": c["note"],
                "technique": c["technique"],
            })
        else:
            na.append({"property_id": pid, "reason": NOT_YET.get(pid, "check not built yet in this revision of /verif (planned, see DESIGN.md section 4); not claimed until its check runs green")})
    hooks_commits = []
    hc = os.path.join(VERIF, "hooks_commits.txt")
    if os.path.exists(hc):
        hooks_commits = [l.split()[0] for l in open(hc) if l.strip()]
    m = {
        "version": 1,
        "setup_cmd": "sh tools/setup.sh",
        "hooks": {
            "guard": "verif",
            "enable": "go build -tags verif (the harness module replaces github.com/runreveal/pql with /repo)",
            "baseline_off_cmd": "cd /repo && go test -mod=mod -json -vet=off -count=1 -timeout 25m ./...",
            "source_commits": hooks_commits,
            "add_only": True,
        },
        "engines": [
            {"name": "tlc+harness", "path": "tools/check.py", "serves_properties": sorted(CLAIMED),
             "kind_free_text": "TLA+ specification (spec/*.tla) model-checked by TLC; terminal states replayed into the real Go code by harness/, real observations validated back by TLC trace specifications"},
        ],
        "checks": checks,
        "not_applicable": na,
        "notes": "Exit 0 held / 1 VIOLATION / 2 inconclusive (infrastructure). known_findings.json lists repaired and open defects.",
    }
    json.dump(m, open(os.path.join(VERIF, "MANIFEST.json"), "w"), indent=1)
    print("MANIFEST.json: %d claimed, %d not claimed" % (len(checks), len(na)))


if __name__ == "__main__":
    main()
