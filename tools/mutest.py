#!/usr/bin/env python3
"""selftest: apply a mutant patch to /repo, make sure it builds and the repo's
own tests still pass, run the named checks, restore /repo.
usage: tools/mutest.py <patch.diff> <prop> [<prop>...]"""
import subprocess, sys, os, json
patch = os.path.abspath(sys.argv[1]); props = sys.argv[2:]
env = dict(os.environ, GOFLAGS="-mod=mod", GOPROXY="off", GOSUMDB="off", GOTOOLCHAIN="local")
def sh(cmd, **kw): return subprocess.run(cmd, shell=True, capture_output=True, text=True, errors="replace", env=env, **kw)
assert sh("git -C /repo status --porcelain").stdout.strip() == "", "/repo not clean"
r = sh("git -C /repo apply " + patch)
if r.returncode: print("patch does not apply", r.stderr); sys.exit(2)
try:
    t = sh("cd /repo && go build ./... && go test -mod=mod -vet=off -count=1 ./... 2>&1 | tail -5")
    tests_ok = "FAIL" not in t.stdout and t.returncode == 0
    print("repo tests with mutant:", "pass" if tests_ok else "FAIL\n" + t.stdout)
    for p in props:
        c = sh("cd /verif && bin/check %s --tier quick" % p)
        lines = [l for l in c.stdout.splitlines() if l.startswith(("VIOLATION", "KNOWN"))]
        print("%s rc=%d %s" % (p, c.returncode, "DETECTED" if c.returncode == 1 else ("MISSED" if c.returncode == 0 else "INCONCLUSIVE " + c.stderr[-400:])))
        for l in lines[:2]:
            f = l.split("replay=")[-1]
            try:
                v = json.load(open(f))["violation"]; print("    ", v["kind"], v.get("input_text", "")[:80], "|", v["reason"][:160])
            except Exception as e: print("    ", l)
finally:
    sh("git -C /repo checkout -- .")
