#!/usr/bin/env python3
"""Vacuity audit of the specification: run the quick tier of every check (or the ones named) with
TLC's -coverage and list the expression locations of spec/*.tla that no run ever evaluated.

usage: tools/coverage.py [run] [C01 ...]     run the checks with VERIF_COVERAGE=1, then report
       tools/coverage.py report              report from the stored counts (.work/coverage/*.json)"""
import json, os, subprocess, sys

ROOT = os.path.dirname(os.path.dirname(os.path.abspath(__file__)))
ALL = ["C%02d" % i for i in range(1, 17)]


def main():
    args = sys.argv[1:]
    mode = "run"
    if args and args[0] in ("run", "report"):
        mode, args = args[0], args[1:]
    props = args or ALL
    if mode == "run":
        for p in props:
            r = subprocess.run([os.path.join(ROOT, "bin", "check"), p, "--tier", "quick"], env=dict(os.environ, VERIF_COVERAGE="1"),
                               capture_output=True, text=True)
            print(p, "rc=%d" % r.returncode, r.stdout.strip().splitlines()[-1] if r.stdout.strip() else r.stderr[-200:], flush=True)
    cov = {}
    d = os.path.join(ROOT, ".work", "coverage")
    for f in sorted(os.listdir(d)):
        for k, v in json.load(open(os.path.join(d, f))).items():
            cov[k] = max(cov.get(k, 0), v)
    src = {}
    zero = sorted((k for k, v in cov.items() if v == 0), key=lambda k: (k.split(":")[0], int(k.split(":")[1])))
    bymod = {}
    for k in cov:
        bymod.setdefault(k.split(":")[0], [0, 0])
        bymod[k.split(":")[0]][0] += 1
        if cov[k] == 0:
            bymod[k.split(":")[0]][1] += 1
    print("module               locations  never evaluated")
    for m, (n, z) in sorted(bymod.items()):
        print("%-20s %9d  %d" % (m, n, z))
    print()
    seen = set()
    for k in zero:
        mod, line = k.split(":")[0], int(k.split(":")[1])
        path = os.path.join(ROOT, "spec", mod + ".tla")
        if not os.path.exists(path) or (mod, line) in seen:
            continue
        seen.add((mod, line))
        if mod not in src:
            src[mod] = open(path).read().splitlines()
        print("%s.tla:%d: %s" % (mod, line, src[mod][line - 1].strip()[:150]))


main()
