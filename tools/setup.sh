#!/bin/sh
# Offline set-up: nothing is downloaded.  Parses every TLA+ module with SANY and
# builds the harness once against /repo so that the Go build cache is warm.
set -e
cd "$(dirname "$0")/.."
export GOFLAGS=-mod=mod GOPROXY=off GOSUMDB=off GOTOOLCHAIN=local
tmp=$(mktemp -d)
trap 'rm -rf "$tmp"' EXIT
cp -r spec "$tmp/spec"
for f in "$tmp"/spec/*.tla; do
  case "$f" in *Proof.tla) continue ;; esac   # proof modules import TLAPS.tla, which belongs to tlapm, not to SANY's library
  (cd "$tmp/spec" && timeout 120 java -cp /opt/veriftools/tla/tla2tools.jar:/opt/veriftools/tla/CommunityModules-deps.jar tla2sany.SANY "$(basename "$f")" >"$tmp/sany.out" 2>&1) || { cat "$tmp/sany.out"; echo "SANY failed on $f"; exit 1; }
done
command -v tlapm >/dev/null || { echo "tlapm not found"; exit 1; }
cp -r harness "$tmp/harness"
cp /repo/go.sum "$tmp/harness/go.sum"
(cd "$tmp/harness" && go build -tags verif -o "$tmp/h" . )
echo "setup ok"
