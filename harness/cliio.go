package main

import (
	"bufio"
	"bytes"
	"encoding/json"
	"fmt"
	"os"
	"os/exec"
	"path/filepath"
	"reflect"
	"strings"
	"sync"
	"time"

	"github.com/runreveal/pql"
)

// C16, input channels: cases from spec/CliInput.tla (script, layout, channel,
// cut points, fault, output) are realised with real files, directories,
// missing paths and standard input; what the binary did is written as one
// trace record per run and judged by TLC (TraceCli.tla).

type cliIoArg struct {
	K    string   `json:"k"` // text | dir | miss
	D    []cliSym `json:"d"`
	Dash bool     `json:"dash"`
}

type cliAlt struct {
	Q       int   `json:"q"`
	Prelude []int `json:"prelude"`
}

// one block of standard output: every (statement, lets in scope) whose SQL it is
type cliBlock struct {
	Alts []cliAlt `json:"alts"`
}

type cliObs struct {
	Blocks   []cliBlock `json:"blocks"`
	Exit     int        `json:"exit"`
	ErrLines int        `json:"errLines"`
}

type cliIoCase struct {
	Script []string   `json:"script"`
	Text   []cliSym   `json:"text"`
	Ch     []any      `json:"ch"`
	Io     []any      `json:"io"`
	Args   []cliIoArg `json:"args"`
	Model  cliObs     `json:"model"`
}

// what is needed to run a case again
type cliIoRun struct {
	Stmts  []string    `json:"stmts"`
	Halves [][2]string `json:"halves"`
	Case   cliIoCase   `json:"case"`
}

func symsText(syms []cliSym, stmts []string, halves [][2]string) string {
	c := cliCase{Text: syms}
	return cliText(&c, stmts, halves)
}

// every SQL text a query statement of the script can legitimately produce,
// for every choice of earlier accepted lets
func cliCandidates(script, stmts []string) map[string]cliBlock {
	out := map[string]cliBlock{}
	add := func(sql string, a cliAlt) {
		b := out[sql]
		b.Alts = append(b.Alts, a)
		out[sql] = b
	}
	for q, k := range script {
		if k != "QOk" {
			continue
		}
		var lets []int
		for j := 0; j < q; j++ {
			if script[j] == "LetOk" {
				lets = append(lets, j+1)
			}
		}
		for mask := 0; mask < 1<<len(lets); mask++ {
			var src strings.Builder
			pre := []int{}
			for b, j := range lets {
				if mask&(1<<b) != 0 {
					pre = append(pre, j)
					src.WriteString(stmts[j-1])
					src.WriteString(";\n")
				}
			}
			src.WriteString(stmts[q])
			sql, err := pql.Compile(src.String())
			if err != nil {
				continue
			}
			add(sql, cliAlt{Q: q + 1, Prelude: pre})
		}
	}
	return out
}

func cliBlocksOf(stdout string, cands map[string]cliBlock) []cliBlock {
	blocks := []cliBlock{}
	rest := stdout
	for rest != "" {
		i := strings.Index(rest, "\n\n")
		if i < 0 {
			blocks = append(blocks, cliBlock{Alts: []cliAlt{}})
			break
		}
		if b, ok := cands[rest[:i]]; ok {
			blocks = append(blocks, b)
		} else {
			blocks = append(blocks, cliBlock{Alts: []cliAlt{}})
		}
		rest = rest[i+2:]
	}
	return blocks
}

// blocksMatch: every block of the model (one alternative each) is among the alternatives of the observed block.
func blocksMatch(obs, model []cliBlock) bool {
	if len(obs) != len(model) {
		return false
	}
	for i := range model {
		ok := false
		for _, a := range obs[i].Alts {
			for _, m := range model[i].Alts {
				if reflect.DeepEqual(a, m) || (a.Q == m.Q && len(a.Prelude) == 0 && len(m.Prelude) == 0) {
					ok = true
				}
			}
		}
		if !ok {
			return false
		}
	}
	return true
}

func runCliIo(bin, dir string, id int, run *cliIoRun) (cliObs, cliRun) {
	c := &run.Case
	base := filepath.Join(dir, fmt.Sprintf("io%d", id))
	var args []string
	var created []string
	stdin := ""
	chanName, _ := c.Io[0].(string)
	outKind, _ := c.Io[4].(string)
	outPath := ""
	if outKind == "ofile" {
		outPath = base + ".sql"
		args = append(args, "-o", outPath)
		created = append(created, outPath)
	}
	if chanName == "stdin" {
		stdin = symsText(c.Text, run.Stmts, run.Halves)
		if outPath != "" {
			args = append(args, "-")
		}
	}
	for j, a := range c.Args {
		p := fmt.Sprintf("%s.%d", base, j)
		switch {
		case a.K == "dir":
			os.Mkdir(p, 0o777)
			created = append(created, p)
			args = append(args, p)
		case a.K == "miss":
			args = append(args, p+".missing")
		case a.Dash:
			stdin = symsText(a.D, run.Stmts, run.Halves)
			args = append(args, "-")
		default:
			os.WriteFile(p, []byte(symsText(a.D, run.Stmts, run.Halves)), 0o666)
			created = append(created, p)
			args = append(args, p)
		}
	}
	cmd := exec.Command(bin, args...)
	cmd.Stdin = strings.NewReader(stdin)
	var so, se bytes.Buffer
	cmd.Stdout, cmd.Stderr = &so, &se
	done := make(chan error, 1)
	if err := cmd.Start(); err != nil {
		fatal("cannot start", bin, err)
	}
	go func() { done <- cmd.Wait() }()
	var r cliRun
	select {
	case err := <-done:
		if ee, ok := err.(*exec.ExitError); ok {
			r.exit = ee.ExitCode()
		} else if err != nil {
			r.exit = -1
		}
	case <-time.After(20 * time.Second):
		cmd.Process.Kill()
		r.timedOut = true
		r.exit = -2
	}
	r.stdout, r.stderr = so.String(), se.String()
	if outPath != "" {
		b, _ := os.ReadFile(outPath)
		r.stdout = string(b) + r.stdout
	}
	for _, p := range created {
		os.Remove(p)
	}
	obs := cliObs{Blocks: cliBlocksOf(r.stdout, cliCandidates(c.Script, run.Stmts)), ErrLines: nonEmptyLines(r.stderr)}
	if r.exit != 0 {
		obs.Exit = 1
	}
	return obs, r
}

func cmdCliIoReplay(a args) {
	res := newResult("C16")
	bin := a.str("bin", "")
	dir := a.str("dir", os.TempDir())
	seed := int64(a.int("seed", 1))
	sample := a.int("sample", 1)
	tf, err := os.Create(a.str("trace", "cliio.ndjson"))
	if err != nil {
		fatal(err)
	}
	sf, err := os.Create(a.str("side", "cliio.side"))
	if err != nil {
		fatal(err)
	}
	tw, sw := bufio.NewWriterSize(tf, 1<<20), bufio.NewWriterSize(sf, 1<<20)
	var mu sync.Mutex
	var wg sync.WaitGroup
	sem := make(chan struct{}, 16)
	idx := 0
	forEachTagged(a.str("cases", ""), "CASE", func(p []byte) {
		idx++
		if sample > 1 && (idx+int(seed))%sample != 0 {
			return
		}
		var run cliIoRun
		if err := json.Unmarshal(p, &run.Case); err != nil {
			fatal("bad case", err)
		}
		id := idx
		wg.Add(1)
		sem <- struct{}{}
		go func() {
			defer wg.Done()
			defer func() { <-sem }()
			c := &run.Case
			rng := newRand(seed, fmt.Sprintf("cliio%d", id))
			run.Stmts, run.Halves = concretizeScript(&cliCase{Script: c.Script}, rng)
			obs, r := runCliIo(bin, dir, id, &run)
			mu.Lock()
			defer mu.Unlock()
			res.Cases++
			res.Evaluations++
			res.Nontrivial++
			fault, _ := c.Io[3].(string)
			res.Checks["cli_io_runs"]++
			res.Checks["cli_io_"+strings.TrimRight(fault, "0123")]++
			if r.timedOut {
				res.violate(Violation{Property: "C16", Kind: "cli_io", InputB64: b64(symsText(c.Text, run.Stmts, run.Halves)),
					Extra: map[string]any{"run": run}, Reason: "the command did not finish within 20 s"})
				return
			}
			if obs.Exit != c.Model.Exit || obs.ErrLines < c.Model.ErrLines || // an error message may have several lines
				!blocksMatch(obs.Blocks, c.Model.Blocks) {
				res.Drift++
				if len(res.DriftSample) < 5 {
					res.DriftSample = append(res.DriftSample, map[string]any{"io": c.Io, "script": c.Script, "model": c.Model, "observed": obs})
				}
			}
			if id%4999 == 1 {
				res.sample(map[string]any{"script": c.Script, "io": c.Io, "stdout": r.stdout, "exit": r.exit, "stderr_lines": obs.ErrLines})
			}
			rec, _ := json.Marshal(map[string]any{"id": id, "ch": c.Ch, "io": c.Io, "obs": obs})
			tw.Write(rec)
			tw.WriteByte('\n')
			side, _ := json.Marshal(map[string]any{"id": id, "run": run, "obs": obs, "stdout": r.stdout, "stderr": r.stderr})
			sw.Write(side)
			sw.WriteByte('\n')
		}()
	})
	wg.Wait()
	tw.Flush()
	sw.Flush()
	tf.Close()
	sf.Close()
	res.write(a.str("out", "result.json"))
}

func cmdCliIoTraceCheck(a args) {
	res := newResult("C16")
	type sideRec struct {
		ID     int      `json:"id"`
		Run    cliIoRun `json:"run"`
		Obs    cliObs   `json:"obs"`
		Stdout string   `json:"stdout"`
		Stderr string   `json:"stderr"`
	}
	side := map[int]sideRec{}
	f, err := os.Open(a.str("side", ""))
	if err != nil {
		fatal(err)
	}
	sc := bufio.NewScanner(f)
	sc.Buffer(make([]byte, 1<<20), 1<<26)
	for sc.Scan() {
		var r sideRec
		if err := json.Unmarshal(sc.Bytes(), &r); err != nil {
			fatal(err)
		}
		side[r.ID] = r
	}
	f.Close()
	for _, vf := range strings.Split(a.str("verdicts", ""), ",") {
		if vf == "" {
			continue
		}
		forEachTagged(vf, "TV", func(p []byte) {
			var v struct {
				ID      int    `json:"id"`
				Verdict string `json:"verdict"`
			}
			if err := json.Unmarshal(p, &v); err != nil {
				fatal("bad verdict", err)
			}
			r, ok := side[v.ID]
			if !ok {
				fatal("verdict for unknown id", v.ID)
			}
			res.Cases++
			res.Evaluations++
			res.Nontrivial++
			res.Checks["cli_io_runs_judged_by_TLC"]++
			if v.Verdict != "ok" {
				c := &r.Run.Case
				res.violate(Violation{Property: "C16", Kind: "cli_io", InputB64: b64(symsText(c.Text, r.Run.Stmts, r.Run.Halves)),
					Extra:    map[string]any{"run": r.Run, "io": c.Io, "script": c.Script},
					Observed: map[string]any{"obs": r.Obs, "stdout": r.Stdout, "stderr": r.Stderr}, Reason: v.Verdict})
			}
		})
	}
	res.write(a.str("out", "result.json"))
}
