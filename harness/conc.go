//go:build verif

package main

import (
	"bytes"
	"encoding/json"
	"fmt"
	"math/rand"
	"os"
	"os/exec"
	"path/filepath"
	"reflect"
	"runtime"
	"strconv"
	"strings"
	"sync"
	"time"

	"github.com/runreveal/pql"
	"github.com/runreveal/pql/parser"
)

// C14.  conc-worker runs inside a -race build; conc-replay (any build) starts
// workers, collects their results and the race detector's reports.
//
// Nothing in the worker synchronises goroutines while they are inside the
// code under test: goroutine-local state is found through the goroutine id in
// a fixed array, schedules are followed by spinning on the clock, logs are
// per goroutine.  (Channel or mutex hand-offs would order the accesses and
// hide every race from the detector.)

type gstate struct {
	slots []int // schedule replay: global slot index of each of this goroutine's hook points
	next  int
	t0    time.Time
	delta time.Duration
	log   []string
	rec   bool // record hook labels
	jit   *rand.Rand
}

var gslots [1 << 14]*gstate

func goid() int {
	var buf [64]byte
	n := runtime.Stack(buf[:], false)
	// "goroutine 123 ["
	s := buf[len("goroutine "):n]
	id := 0
	for _, c := range s {
		if c < '0' || c > '9' {
			break
		}
		id = id*10 + int(c-'0')
	}
	return id
}

func hook(point string) {
	st := gslots[goid()&(len(gslots)-1)]
	if st == nil {
		return
	}
	if st.rec {
		st.log = append(st.log, point)
	}
	if st.slots != nil {
		if st.next < len(st.slots) {
			deadline := st.t0.Add(time.Duration(st.slots[st.next]) * st.delta)
			st.next++
			for time.Now().Before(deadline) {
			}
		}
	} else if st.jit != nil {
		// free running: small random delays widen the windows
		if n := st.jit.Intn(8); n > 4 {
			end := time.Now().Add(time.Duration(st.jit.Intn(60)) * time.Microsecond)
			for time.Now().Before(end) {
			}
		} else if n == 0 {
			runtime.Gosched()
		}
	}
}

type concCall struct {
	Lets int    `json:"lets"`
	Tabs int    `json:"tabs"`
	Map  string `json:"map"`
	// free-running extras
	Source string `json:"source,omitempty"`
	Kind   string `json:"kind,omitempty"` // "compile" | "parse" | "scan"
}

func sourceFor(c concCall) string {
	if c.Source != "" {
		return c.Source
	}
	switch {
	case c.Lets == 1 && c.Tabs == 1:
		return "let x = 1; T | where f(a)"
	case c.Lets == 0 && c.Tabs == 1:
		return "T | where f(a)"
	case c.Lets == 0 && c.Tabs == 2:
		return "T | where f(g(a))"
	case c.Lets == 1 && c.Tabs == 0:
		return "let x = 1; T | where a == x"
	case c.Lets == 0 && c.Tabs == 0:
		return "T | where a == p"
	case c.Lets == 2 && c.Tabs == 0:
		return "let x = 1; let y = x; T | where a == y"
	}
	fatal("no source for call", c)
	return ""
}

type callResult struct {
	SQL string
	Err string
}

func doCall(c concCall, maps map[string]map[string]string, variant int) callResult {
	src := sourceFor(c)
	switch c.Kind {
	case "parse":
		stmts, err := parser.Parse(src)
		return callResult{SQL: fmt.Sprint(projStmts(stmts)), Err: fmt.Sprint(err)}
	case "scan":
		return callResult{SQL: fmt.Sprint(parser.Scan(src))}
	}
	var opts *pql.CompileOptions
	if c.Map != "nil" {
		opts = &pql.CompileOptions{Parameters: maps[c.Map]}
	} else {
		switch variant % 3 { // nil, zero value and an empty map are equivalent
		case 1:
			opts = &pql.CompileOptions{}
		case 2:
			opts = &pql.CompileOptions{Parameters: map[string]string{}}
		}
	}
	sql, err := opts.Compile(src)
	r := callResult{SQL: sql}
	if err != nil {
		r.Err = err.Error()
	}
	return r
}

func freshMaps() map[string]map[string]string {
	return map[string]map[string]string{"A": {"p": "$1"}, "B": {"p": "$1"}, "C": {"p": "$2", "true": "1", "a": "{a:Int}"}}
}

type concRound struct {
	Calls map[string][]concCall `json:"calls"`
	Hist  [][]any               `json:"hist,omitempty"` // schedule: [g, label]
}

type roundReport struct {
	Problem string              `json:"problem,omitempty"`
	Detail  any                 `json:"detail,omitempty"`
	Logs    map[string][]string `json:"logs,omitempty"`
}

// every result ever observed for one (kind, source, parameter contents): equal inputs must give equal results,
// whatever was called before (in this process or any other)
var observed = map[string]map[string]bool{}

func observe(c concCall, r callResult) {
	pm := "nil"
	if c.Map != "nil" {
		b, _ := json.Marshal(freshMaps()[c.Map])
		pm = string(b)
	}
	key := c.Kind + "|" + sourceFor(c) + "|" + pm
	val := r.SQL + "|" + r.Err
	if observed[key] == nil {
		observed[key] = map[string]bool{}
	}
	observed[key][val] = true
}

// the parameter p is inserted verbatim: a call that uses p must show its own map's snippet
func wrongSnippet(c concCall, r callResult) string {
	if c.Kind != "" && c.Kind != "compile" || r.Err != "" || !strings.Contains(sourceFor(c), " p") {
		return ""
	}
	want := "\"p\""
	if c.Map != "nil" {
		want = freshMaps()[c.Map]["p"]
	}
	for _, other := range []string{"$1", "$2", "\"p\""} {
		if other != want && strings.Contains(r.SQL, other) && !strings.Contains(r.SQL, want) {
			return fmt.Sprintf("the SQL contains %s where this call's parameter map gives %s", other, want)
		}
	}
	return ""
}

// runRound executes one round of concurrent calls.  With a schedule the
// goroutines follow it by the clock; otherwise they run freely.
func runRound(r concRound, reset bool, rng *rand.Rand, record bool) roundReport {
	if reset {
		pql.VerifResetFunctionTable()
	}
	maps := freshMaps()
	gs := make([]string, 0, len(r.Calls))
	for g := range r.Calls {
		gs = append(gs, g)
	}
	// slots per goroutine from the schedule
	slots := map[string][]int{}
	for i, h := range r.Hist {
		g, _ := h[0].(string)
		slots[g] = append(slots[g], i+1)
	}
	results := map[string][]callResult{}
	states := map[string]*gstate{}
	var mu sync.Mutex
	var ready, done sync.WaitGroup
	start := make(chan struct{})
	t0 := time.Now().Add(3 * time.Millisecond)
	for _, g := range gs {
		g := g
		calls := r.Calls[g]
		st := &gstate{rec: record, t0: t0, delta: 150 * time.Microsecond}
		if r.Hist != nil {
			st.slots = slots[g]
			if st.slots == nil {
				st.slots = []int{}
			}
		} else {
			st.jit = rand.New(rand.NewSource(rng.Int63()))
		}
		states[g] = st
		variant := rng.Intn(3)
		ready.Add(1)
		done.Add(1)
		go func() {
			defer done.Done()
			id := goid() & (len(gslots) - 1)
			gslots[id] = st
			ready.Done()
			<-start
			out := make([]callResult, 0, len(calls))
			for _, c := range calls {
				out = append(out, doCall(c, maps, variant))
			}
			gslots[id] = nil
			mu.Lock()
			results[g] = out
			mu.Unlock()
		}()
	}
	ready.Wait()
	close(start)
	done.Wait()
	rep := roundReport{}
	if record {
		rep.Logs = map[string][]string{}
		for g, st := range states {
			rep.Logs[g] = st.log
		}
	}
	// the caller's maps are unchanged
	if !reflect.DeepEqual(maps, freshMaps()) {
		rep.Problem = "a call modified the caller's parameter map"
		rep.Detail = maps
		return rep
	}
	// every result equals the sequential result for the same source and parameters
	for _, g := range gs {
		for i, c := range r.Calls[g] {
			observe(c, results[g][i])
			if msg := wrongSnippet(c, results[g][i]); msg != "" {
				rep.Problem = "a call was influenced by another call's parameters"
				rep.Detail = map[string]any{"goroutine": g, "call": c, "source": sourceFor(c), "result": results[g][i], "why": msg}
				return rep
			}
			for v := 0; v < 3; v++ {
				want := doCall(c, freshMaps(), v)
				if results[g][i] != want {
					rep.Problem = "a concurrent call returned another result than the same call alone"
					rep.Detail = map[string]any{"goroutine": g, "call": c, "source": sourceFor(c), "concurrent": results[g][i], "alone": want, "options_variant": v}
					return rep
				}
			}
		}
	}
	return rep
}

var freeSources = []string{
	"let x = 1; T | where f(a)", "T | where f(g(a))", "let x = 1; T | where a == x", "T | where a == p",
	"T | where not(a) and isnull(b) | summarize count() by c", "T | join kind=nosuch (B) on k", "T | where", "T | where strcat(a, p, 'x') =~ 'y'",
	"T | join (B | where tolower(b) == p) on k | top 3 by k", "let n = now(); T | extend t = n | take 5", "T | where not()", "",
	"T | project a, b | sort by a | take 1 | count", "let x = nosuch; T", "T; U",
	"let p = 5", "let zz = 1;;", "let a = 'x'", "let p = p", "T | where a == p | take 3", "let q = p; T | where b == q", "T | join (B) on k, $left.a == p", "T | where a == p",
	"T | where a > 1 | project a | sort by a | take 2 | count", "T | summarize count() by a | join (B | take 1) on a | as X | count",
}

// large programs: shared buffers, pools and caches are often only reached past some size (many subqueries, long
// lists, many bindings, deep nests)
func init() {
	rep := func(s string, n int) string { return strings.Repeat(s, n) }
	freeSources = append(freeSources,
		"T"+rep(" | count", 12),
		"T"+rep(" | take 3 | sort by a", 9),
		"T | join (B"+rep(" | where b > 1 | take 2", 6)+") on k"+rep(" | join (C) on k", 5),
		"T | where a in (1"+rep(", 2", 40)+") | project a"+rep(", b", 30),
		rep("let v = 1; ", 25)+"T | where a == v and b == p",
		"T | extend r = "+rep("f(", 30)+"a"+rep(")", 30)+" | summarize count() by "+rep("a, ", 20)+"b",
		"T | where strcat(p"+rep(", 'x'", 35)+") == 'y'"+rep(" | as X", 1),
		"T"+rep(" | where a == p", 11)+" | count",
	)
}

// cmdConcWorker: runs rounds from a file; writes a report.
func cmdConcWorker(a args) {
	pql.VerifHook = hook
	seed := int64(a.int("seed", 1))
	rng := rand.New(rand.NewSource(seed))
	var rounds []concRound
	if f := a.str("rounds", ""); f != "" {
		b, err := os.ReadFile(f)
		if err != nil {
			fatal(err)
		}
		if err := json.Unmarshal(b, &rounds); err != nil {
			fatal(err)
		}
	}
	type out struct {
		Round  int         `json:"round"`
		Report roundReport `json:"report"`
		Spec   concRound   `json:"spec"`
	}
	var outs []out
	record := a.str("record", "") != ""
	for i, r := range rounds {
		rep := runRound(r, true, rng, record && r.Hist == nil)
		if rep.Problem != "" || rep.Logs != nil {
			outs = append(outs, out{Round: i, Report: rep, Spec: r})
		}
	}
	// free-running bursts: many goroutines, mixed calls, first use only in the first burst
	for b, n := 0, a.int("bursts", 0); b < n; b++ {
		ng := []int{2, 8, 64}[b%3]
		r := concRound{Calls: map[string][]concCall{}}
		for g := 0; g < ng; g++ {
			var calls []concCall
			for k := 0; k < 1+rng.Intn(4); k++ {
				kind := []string{"compile", "compile", "compile", "parse", "scan"}[rng.Intn(5)]
				calls = append(calls, concCall{Source: freeSources[rng.Intn(len(freeSources))], Kind: kind,
					Map: []string{"nil", "A", "B", "C"}[rng.Intn(4)]})
			}
			r.Calls["g"+strconv.Itoa(g)] = calls
		}
		rep := runRound(r, b > 0 || a.str("fresh", "") == "", rng, false)
		if rep.Problem != "" {
			outs = append(outs, out{Round: 100000 + b, Report: rep, Spec: r})
		}
	}
	bts, _ := json.Marshal(outs)
	os.WriteFile(a.str("out", "worker.json"), bts, 0o666)
	ob, _ := json.Marshal(observed)
	os.WriteFile(a.str("out", "worker.json")+".observed", ob, 0o666)
}

// cmdConcReplay: orchestrates -race workers.
func cmdConcReplay(a args) {
	res := newResult("C14")
	raceBin := a.str("race-bin", "")
	dir := a.str("dir", os.TempDir())
	seed := int64(a.int("seed", 1))
	rng := newRand(seed, "conc")
	// schedules from TLC
	type schedLine struct {
		Hist [][]any `json:"hist"`
	}
	var calls map[string][]concCall
	if err := json.Unmarshal([]byte(a.str("calls", "{}")), &calls); err != nil {
		fatal("bad --calls", err)
	}
	var rounds []concRound
	forEachTagged(a.str("schedules", ""), "SCHED", func(p []byte) {
		var s schedLine
		if err := json.Unmarshal(p, &s); err != nil {
			fatal(err)
		}
		rounds = append(rounds, concRound{Calls: calls, Hist: s.Hist})
	})
	maxS := a.int("max-schedules", 300)
	if len(rounds) > maxS {
		rng.Shuffle(len(rounds), func(i, j int) { rounds[i], rounds[j] = rounds[j], rounds[i] })
		rounds = rounds[:maxS]
	}
	// small free-running rounds whose hook logs TLC validates
	nTraced := a.int("traced", 40)
	for i := 0; i < nTraced; i++ {
		rounds = append(rounds, concRound{Calls: calls})
	}
	res.Cases = len(rounds)
	res.Nontrivial = len(rounds)
	runWorker := func(name string, rs []concRound, bursts int, fresh bool, wseed int64) {
		rf := filepath.Join(dir, name+".rounds.json")
		of := filepath.Join(dir, name+".out.json")
		b, _ := json.Marshal(rs)
		os.WriteFile(rf, b, 0o666)
		argv := []string{"conc-worker", "--rounds", rf, "--out", of, "--seed", strconv.FormatInt(wseed, 10), "--bursts", strconv.Itoa(bursts), "--record", "1"}
		if fresh {
			argv = append(argv, "--fresh", "1")
		}
		cmd := exec.Command(raceBin, argv...)
		raceLog := filepath.Join(dir, name+".race")
		cmd.Env = append(os.Environ(), "GORACE=log_path="+raceLog+" exitcode=0 halt_on_error=0")
		var se bytes.Buffer
		cmd.Stderr = &se
		done := make(chan error, 1)
		cmd.Start()
		go func() { done <- cmd.Wait() }()
		select {
		case err := <-done:
			if err != nil {
				res.violate(Violation{Property: "C14", Kind: "worker_crashed", InputB64: b64(name), Observed: se.String()[:min(se.Len(), 2000)],
					Reason: "concurrent calls crashed the process: " + err.Error(), Extra: map[string]any{"rounds": len(rs), "bursts": bursts}})
				return
			}
		case <-time.After(300 * time.Second):
			cmd.Process.Kill()
			res.violate(Violation{Property: "C14", Kind: "worker_hung", InputB64: b64(name), Reason: "concurrent calls did not finish (deadlock?)",
				Extra: map[string]any{"rounds": len(rs), "bursts": bursts}})
			return
		}
		res.Evaluations += len(rs) + bursts
		res.Checks["rounds"] += len(rs)
		res.Checks["bursts"] += bursts
		// race reports
		matches, _ := filepath.Glob(raceLog + ".*")
		for _, m := range matches {
			txt, _ := os.ReadFile(m)
			if bytes.Contains(txt, []byte("DATA RACE")) {
				s := string(txt)
				if len(s) > 3000 {
					s = s[:3000]
				}
				res.violate(Violation{Property: "C14", Kind: "data_race", InputB64: b64(name), Observed: s,
					Reason: "the race detector reports a data race during concurrent calls", Extra: map[string]any{"worker": name, "rounds_file": string(b[:min(len(b), 2000)]), "bursts": bursts, "fresh": fresh, "seed": wseed}})
			}
			os.Remove(m)
		}
		ob, err := os.ReadFile(of)
		if err != nil {
			fatal("worker wrote no report", name, se.String())
		}
		var outs []struct {
			Round  int         `json:"round"`
			Report roundReport `json:"report"`
			Spec   concRound   `json:"spec"`
		}
		json.Unmarshal(ob, &outs)
		for _, o := range outs {
			if o.Report.Problem != "" {
				sb, _ := json.Marshal(o.Spec)
				res.violate(Violation{Property: "C14", Kind: "concurrent_result", InputB64: b64(string(sb[:min(len(sb), 3000)])), Observed: o.Report.Detail,
					Reason: o.Report.Problem, Extra: map[string]any{"worker": name, "bursts": bursts, "fresh": fresh, "seed": wseed}})
			} else if o.Report.Logs != nil {
				concTraces = append(concTraces, map[string]any{"calls": o.Spec.Calls, "logs": o.Report.Logs})
			}
		}
		if ob2, err := os.ReadFile(of + ".observed"); err == nil {
			var m map[string]map[string]bool
			json.Unmarshal(ob2, &m)
			for k, vs := range m {
				if allObserved[k] == nil {
					allObserved[k] = map[string]bool{}
				}
				for v := range vs {
					allObserved[k][v] = true
				}
			}
			os.Remove(of + ".observed")
		}
		os.Remove(rf)
		os.Remove(of)
	}
	// schedule replay + traced rounds in a few workers; bursts in fresh processes (first use)
	chunk := 100
	for i, w := 0, 0; i < len(rounds); i, w = i+chunk, w+1 {
		j := min(i+chunk, len(rounds))
		runWorker(fmt.Sprintf("sched%d", w), rounds[i:j], 0, false, seed*100+int64(w))
	}
	for f := 0; f < a.int("fresh-processes", 10); f++ {
		runWorker(fmt.Sprintf("fresh%d", f), nil, 3, true, seed*1000+int64(f))
	}
	// equal inputs, equal results: over all rounds, bursts and processes of this run
	res.Checks["distinct_inputs_observed"] = len(allObserved)
	for k, vs := range allObserved {
		if len(vs) > 1 {
			var list []string
			for v := range vs {
				list = append(list, v)
			}
			res.violate(Violation{Property: "C14", Kind: "concurrent_result", InputB64: b64(k), Observed: list,
				Reason: "the same source and parameter contents gave different results at different points of the run (history or interleaving dependence)"})
		}
	}
	// traces for TLC
	tf, err := os.Create(a.str("trace", filepath.Join(dir, "conc.ndjson")))
	if err != nil {
		fatal(err)
	}
	enc := json.NewEncoder(tf)
	for i, t := range concTraces {
		t["id"] = i + 1
		enc.Encode(t)
	}
	tf.Close()
	res.Checks["traces_for_TLC"] = len(concTraces)
	if len(concTraces) > 0 {
		res.sample(concTraces[0])
	}
	res.write(a.str("out", "result.json"))
}

var concTraces []map[string]any
var allObserved = map[string]map[string]bool{}

// cmdConcTraceCheck: TLC's verdicts on the hook logs.
func cmdConcTraceCheck(a args) {
	res := newResult("C14")
	n := 0
	for _, vf := range strings.Split(a.str("verdicts", ""), ",") {
		if vf == "" {
			continue
		}
		n += forEachTagged(vf, "TV", func(p []byte) {
			var v struct {
				ID  int    `json:"id"`
				OK  bool   `json:"ok"`
				Why string `json:"why"`
			}
			if err := json.Unmarshal(p, &v); err != nil {
				fatal(err)
			}
			res.Cases++
			res.Evaluations++
			res.Nontrivial++
			res.Checks["hook_logs_validated_by_TLC"]++
			if !v.OK {
				res.violate(Violation{Property: "C14", Kind: "hook_log_rejected", InputB64: b64(strconv.Itoa(v.ID)),
					Reason: "the recorded linearization points are not a behaviour of Conc.tla: " + v.Why, Extra: map[string]any{"trace_id": v.ID}})
			}
		})
	}
	res.write(a.str("out", "result.json"))
}
