//go:build !clicopy

package main

// Without the compiled-in copy of cmd/pql (build tag clicopy) there is no reader to replay.
func cmdReaderReplay(a args) {
	fatal("reader-replay needs the clicopy build")
}

func readerCase(p []byte) (problem, structural string, osLike bool, nsources int, observed map[string]any, expected map[string]any) {
	fatal("reader replay needs the clicopy build")
	return
}
