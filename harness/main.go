package main

import (
	"fmt"
	"os"
)

func main() {
	if len(os.Args) < 2 {
		fmt.Fprintln(os.Stderr, "usage: harness <command> [--key value ...]")
		os.Exit(2)
	}
	a := parseArgs(os.Args[2:])
	switch os.Args[1] {
	case "lex-replay":
		cmdLexReplay(a)
	case "lex-trace":
		cmdLexTrace(a)
	case "prog-replay":
		cmdProgReplay(a)
	case "parse-trace-check":
		cmdParseTraceCheck(a)
	case "expr-replay":
		cmdExprReplay(a)
	case "expr-trace-check":
		cmdExprTraceCheck(a)
	case "c04-replay":
		cmdC04Replay(a)
	case "plan-replay":
		cmdPlanReplay(a)
	case "plan-trace-check":
		cmdPlanTraceCheck(a)
	case "cli-replay":
		cmdCliReplay(a)
	case "reader-replay":
		cmdReaderReplay(a)
	case "cli-io-replay":
		cmdCliIoReplay(a)
	case "cli-io-trace-check":
		cmdCliIoTraceCheck(a)
	case "conc-worker":
		cmdConcWorker(a)
	case "conc-replay":
		cmdConcReplay(a)
	case "conc-trace-check":
		cmdConcTraceCheck(a)
	case "probe-letchain":
		cmdProbeLetChain(a)
	case "replay":
		cmdReplay(a)
	case "lex-trace-check":
		cmdLexTraceCheck(a)
	default:
		fmt.Fprintln(os.Stderr, "unknown command", os.Args[1])
		os.Exit(2)
	}
}
