package main

import (
	"bufio"
	"bytes"
	"encoding/json"
	"fmt"
	"os"
	"os/exec"
	"path/filepath"
	"strings"
	"sync"
	"time"

	"github.com/runreveal/pql"
)

// C16: scripts and layouts from spec/Cli.tla, run through the real binary.

type cliSym struct {
	T    string `json:"t"`
	S    int    `json:"s"`
	Part int    `json:"part"`
	Of   int    `json:"of"`
}

type cliCase struct {
	Script []string `json:"script"`
	Ch     []any    `json:"ch"`
	Text   []cliSym `json:"text"`
	Out    []struct {
		Q       int   `json:"q"`
		Prelude []int `json:"prelude"`
	} `json:"out"`
	RealFails int  `json:"realFails"`
	HasEmpty  bool `json:"hasEmpty"`
	FinalLet  bool `json:"finalLet"`
}

// statement texts for one script; frag[i] = the two halves of statement i
func concretizeScript(c *cliCase, rng interface{ Intn(int) int }) (stmts []string, halves [][2]string) {
	// accepted lets so far: a later let may use the name of an earlier one again (redefinition) and may refer to
	// earlier names in its value, so that the order of the prelude matters
	var letNames []string
	inScope := func() []string {
		seen := map[string]bool{}
		var out []string
		for _, n := range letNames {
			if !seen[n] {
				seen[n] = true
				out = append(out, n)
			}
		}
		return out
	}
	for i, k := range c.Script {
		n := i + 1
		var s string
		cut := -1
		switch k {
		case "LetOk":
			name := fmt.Sprintf("v%d", n)
			if len(letNames) > 0 && rng.Intn(3) == 0 {
				name = letNames[rng.Intn(len(letNames))] // redefinition
			}
			switch v := rng.Intn(5); {
			case v == 0:
				s = fmt.Sprintf("let %s = %d", name, 100+n)
			case v == 1:
				s = fmt.Sprintf("let %s = 'x;%d'", name, n) // a semicolon inside a string literal
			case v == 2:
				s = fmt.Sprintf("let %s = -%d", name, n)
			case len(letNames) > 0:
				s = fmt.Sprintf("let %s = %s + %d", name, letNames[rng.Intn(len(letNames))], n) // refers to an earlier let (maybe itself)
			default:
				s = fmt.Sprintf("let %s = %d", name, 200+n)
			}
			letNames = append(letNames, name)
		case "LetBad":
			s = []string{fmt.Sprintf("let w%d = nosuchname", n), "let = 5", fmt.Sprintf("let w%d 7", n), fmt.Sprintf("let w%d = (1", n)}[rng.Intn(4)]
		case "QOk":
			conds := []string{}
			for _, name := range inScope() {
				conds = append(conds, fmt.Sprintf("c%s == %s", name, name))
			}
			if rng.Intn(2) == 0 {
				conds = append(conds, "s != \"p;q\"") // a semicolon inside a string literal
			}
			s = fmt.Sprintf("T%d", n)
			if len(conds) > 0 {
				s += " | where " + strings.Join(conds, " and ")
			}
			s += []string{"", " | count", " | take 5", " | sort by k"}[rng.Intn(4)]
		case "QBad":
			s = []string{fmt.Sprintf("T%d | where", n), fmt.Sprintf("T%d | nosuchop x", n), fmt.Sprintf("T%d | where $left.a == 1", n),
				fmt.Sprintf("T%d | take 1.5", n), "| count", fmt.Sprintf("T%d T%d", n, n), fmt.Sprintf("T%d | where not()", n)}[rng.Intn(7)]
		case "Empty":
			s = []string{" ", "", "\t", "  "}[rng.Intn(4)]
		}
		stmts = append(stmts, s)
		// split at a space (never inside a quoted literal: the literals above contain no spaces)
		var spaces []int
		for p := 0; p < len(s); p++ {
			if s[p] == ' ' {
				spaces = append(spaces, p)
			}
		}
		if len(spaces) > 0 {
			cut = spaces[rng.Intn(len(spaces))]
		}
		if cut < 0 {
			halves = append(halves, [2]string{s, ""})
		} else {
			first := s[:cut]
			if k != "Empty" && rng.Intn(3) == 0 {
				first += " // note; not a separator" // a semicolon inside a comment
			}
			halves = append(halves, [2]string{first, s[cut+1:]})
		}
	}
	return
}

func cliText(c *cliCase, stmts []string, halves [][2]string) string {
	var sb strings.Builder
	for _, sym := range c.Text {
		switch sym.T {
		case ";":
			sb.WriteByte(';')
		case "NL":
			sb.WriteByte('\n')
		case "frag":
			if sym.Of == 1 {
				sb.WriteString(stmts[sym.S-1])
			} else {
				sb.WriteString(halves[sym.S-1][sym.Part-1])
			}
		}
	}
	return sb.String()
}

type cliRun struct {
	stdout   string
	stderr   string
	exit     int
	timedOut bool
}

func runCLI(bin, dir string, input string, mode int, id int) cliRun {
	var args []string
	var stdin *strings.Reader
	outPath := ""
	base := filepath.Join(dir, fmt.Sprintf("c%d", id))
	switch mode % 4 {
	case 0:
		stdin = strings.NewReader(input)
	case 1:
		p := base + ".pql"
		os.WriteFile(p, []byte(input), 0o666)
		args = append(args, p)
	case 2:
		// several files: the input cut at arbitrary byte positions (also inside a line)
		a, b := len(input)/3, 2*len(input)/3
		for i, part := range []string{input[:a], input[a:b], "", input[b:]} {
			p := fmt.Sprintf("%s.%d.pql", base, i)
			os.WriteFile(p, []byte(part), 0o666)
			args = append(args, p)
		}
	case 3:
		stdin = strings.NewReader(input)
		outPath = base + ".sql"
		args = append(args, "-o", outPath, "-")
	}
	cmd := exec.Command(bin, args...)
	if stdin != nil {
		cmd.Stdin = stdin
	}
	var so, se bytes.Buffer
	cmd.Stdout, cmd.Stderr = &so, &se
	done := make(chan error, 1)
	if err := cmd.Start(); err != nil {
		fatal("cannot start", bin, err)
	}
	go func() { done <- cmd.Wait() }()
	var r cliRun
	select {
	case err := <-done:
		if ee, ok := err.(*exec.ExitError); ok {
			r.exit = ee.ExitCode()
		} else if err != nil {
			r.exit = -1
		}
	case <-time.After(20 * time.Second):
		cmd.Process.Kill()
		r.timedOut = true
	}
	r.stdout, r.stderr = so.String(), se.String()
	if outPath != "" {
		b, _ := os.ReadFile(outPath)
		r.stdout = string(b) + r.stdout
	}
	for _, f := range args {
		if strings.HasPrefix(f, base) {
			os.Remove(f)
		}
	}
	return r
}

func nonEmptyLines(s string) int {
	n := 0
	for _, l := range strings.Split(s, "\n") {
		if strings.TrimSpace(l) != "" {
			n++
		}
	}
	return n
}

func cmdCliReplay(a args) {
	res := newResult("C16")
	bin := a.str("bin", "")
	dir := a.str("dir", os.TempDir())
	seed := int64(a.int("seed", 1))
	sample := a.int("sample", 1) // run every n-th case
	// every run is also written as an observation for TLC (TraceCli.tla judges it with IoJudge)
	var tw, sw *bufio.Writer
	if tp := a.str("trace", ""); tp != "" {
		tf, err := os.Create(tp)
		if err != nil {
			fatal(err)
		}
		sf, err := os.Create(a.str("side", tp+".side"))
		if err != nil {
			fatal(err)
		}
		tw, sw = bufio.NewWriterSize(tf, 1<<20), bufio.NewWriterSize(sf, 1<<20)
		defer func() { tw.Flush(); sw.Flush(); tf.Close(); sf.Close() }()
	}
	var mu sync.Mutex
	var wg sync.WaitGroup
	sem := make(chan struct{}, 16)
	idx := 0
	forEachTagged(a.str("cases", ""), "CASE", func(p []byte) {
		idx++
		if sample > 1 && (idx+int(seed))%sample != 0 {
			return
		}
		var c cliCase
		if err := json.Unmarshal(p, &c); err != nil {
			fatal("bad case", err)
		}
		id := idx
		wg.Add(1)
		sem <- struct{}{}
		go func() {
			defer wg.Done()
			defer func() { <-sem }()
			rng := newRand(seed, fmt.Sprintf("cli%d", id))
			stmts, halves := concretizeScript(&c, rng)
			input := cliText(&c, stmts, halves)
			// expected: the library's SQL for each query with the accepted lets in scope
			var want strings.Builder
			for _, o := range c.Out {
				var src strings.Builder
				for _, j := range o.Prelude {
					src.WriteString(stmts[j-1])
					src.WriteString(";\n")
				}
				src.WriteString(stmts[o.Q-1])
				sql, err := pql.Compile(src.String())
				if err != nil {
					fatal("harness: a QOk statement does not compile:", src.String(), err)
				}
				want.WriteString(sql)
				want.WriteString("\n\n")
			}
			mode := rng.Intn(4)
			r := runCLI(bin, dir, input, mode, id)
			mu.Lock()
			defer mu.Unlock()
			res.Cases++
			res.Evaluations++
			if len(c.Script) > 1 {
				res.Nontrivial++
			}
			res.Checks["cli_runs"]++
			extra := map[string]any{"script": c.Script, "channel": []string{"stdin", "one file", "four files", "stdin, -o file"}[mode%4], "mode": mode,
				"expected_stdout": want.String(), "real_failures": c.RealFails}
			if id%2999 == 1 {
				res.sample(map[string]any{"script": c.Script, "input": input, "stdout": r.stdout, "exit": r.exit})
			}
			if tw != nil && !r.timedOut && len(c.Ch) > 0 {
				obs := cliObs{Blocks: cliBlocksOf(r.stdout, cliCandidates(c.Script, stmts)), ErrLines: nonEmptyLines(r.stderr)}
				if r.exit != 0 {
					obs.Exit = 1
				}
				io := []any{"stdin", 0, 0, "none", "stdout"} // no fault: the channel does not matter to the judge
				rec, _ := json.Marshal(map[string]any{"id": id, "ch": c.Ch, "io": io, "obs": obs})
				tw.Write(rec)
				tw.WriteByte('\n')
				run := cliIoRun{Stmts: stmts, Halves: halves, Case: cliIoCase{Script: c.Script, Text: c.Text, Ch: c.Ch, Io: io}}
				side, _ := json.Marshal(map[string]any{"id": id, "run": run, "obs": obs, "stdout": r.stdout, "stderr": r.stderr})
				sw.Write(side)
				sw.WriteByte('\n')
			}
			why := ""
			switch {
			case r.timedOut:
				why = "the command did not finish within 20 s"
			case r.stdout != want.String():
				why = "standard output is not the library's SQL for each query statement with the accepted lets in scope, each followed by a blank line"
			case c.RealFails > 0 && r.exit == 0:
				why = "a statement failed but the exit status is 0"
			case c.RealFails == 0 && !c.HasEmpty && !c.FinalLet && r.exit != 0:
				why = fmt.Sprintf("no statement failed but the exit status is %d", r.exit)
			case nonEmptyLines(r.stderr) < c.RealFails:
				why = fmt.Sprintf("%d statements failed but standard error has %d lines", c.RealFails, nonEmptyLines(r.stderr))
			}
			if why != "" {
				res.violate(Violation{Property: "C16", Kind: "cli_output", InputB64: b64(input), Extra: extra,
					Observed: map[string]any{"stdout": r.stdout, "stderr": r.stderr, "exit": r.exit}, Reason: why})
			}
		}()
	})
	wg.Wait()
	// input that cannot be read completely
	long := "let v1 = 1;\nT1 | where a == v1;\nT2 | where s == '" + strings.Repeat("x", 70000) + "';\nT3 | count;\n"
	for mode := 0; mode < 4; mode++ {
		r := runCLI(bin, dir, long, mode, 900000+mode)
		first, _ := pql.Compile("let v1 = 1;\nT1 | where a == v1")
		res.Checks["overlong_line"]++
		res.Evaluations++
		extra := map[string]any{"mode": mode, "special": "overlong"}
		full := false
		if third, err := pql.Compile("T3 | count"); err == nil && strings.Contains(r.stdout, third) {
			full = true // the implementation may also handle long lines completely
		}
		switch {
		case !strings.HasPrefix(r.stdout, first+"\n\n"):
			res.violate(Violation{Property: "C16", Kind: "cli_overlong_line", InputB64: b64(long[:200]), Extra: extra,
				Observed: map[string]any{"stdout_prefix": r.stdout[:min(len(r.stdout), 300)], "exit": r.exit}, Reason: "the statements before an over-long line were not compiled"})
		case !full && (r.exit == 0 || nonEmptyLines(r.stderr) == 0):
			res.violate(Violation{Property: "C16", Kind: "cli_overlong_line", InputB64: b64(long[:200]), Extra: extra,
				Observed: map[string]any{"exit": r.exit, "stderr": r.stderr}, Reason: "input after a line longer than 64 KiB was dropped silently (exit status 0 or nothing on standard error)"})
		}
	}
	// unreadable file
	{
		cmd := exec.Command(bin, filepath.Join(dir, "does-not-exist.pql"))
		err := cmd.Run()
		res.Checks["unreadable_file"]++
		if err == nil {
			res.violate(Violation{Property: "C16", Kind: "cli_unreadable_file", InputB64: b64("does-not-exist.pql"), Extra: map[string]any{"special": "unreadable"},
				Reason: "exit status 0 for an input file that cannot be opened"})
		}
	}
	res.write(a.str("out", "result.json"))
}
