//go:build clicopy

package main

import (
	"encoding/json"
	"errors"
	"io"

	"verif/harness/clicopy"
)

// C16, the command's concatenating reader: read schedules from
// spec/MultiReader.tla replayed on the real multiReadCloser (compiled in from
// the working tree's cmd/pql sources) over synthetic sources.

type synthSrc struct {
	data            []byte
	end             string
	closed          int
	readsAfterClose int
}

var errSynth = errors.New("synthetic read error")

func (s *synthSrc) Read(p []byte) (int, error) {
	if s.closed > 0 {
		s.readsAfterClose++
	}
	if len(s.data) == 0 {
		if s.end == "fail" {
			return 0, errSynth
		}
		return 0, io.EOF
	}
	n := copy(p, s.data)
	s.data = s.data[n:]
	if len(s.data) == 0 && s.end == "eager" {
		return n, io.EOF
	}
	return n, nil
}

func (s *synthSrc) Close() error { s.closed++; return nil }

func symBytes(syms []string) []byte {
	b := make([]byte, len(syms))
	for i, s := range syms {
		if s == "NL" {
			b[i] = '\n'
		} else {
			b[i] = s[0]
		}
	}
	return b
}

// readerCase replays one schedule; problem is a behaviour the property forbids (when the sources behave
// like files), structural a difference from the model that the property does not speak about.
func readerCase(p []byte) (problem, structural string, osLike bool, nsources int, observed map[string]any, expected map[string]any) {
	var c struct {
		Sources []struct {
			D   []string `json:"d"`
			End string   `json:"end"`
		} `json:"sources"`
		Caps   []int    `json:"caps"`
		Text   []string `json:"text"`
		Err    bool     `json:"err"`
		Closed []int    `json:"closed"`
	}
	if err := json.Unmarshal(p, &c); err != nil {
		fatal("bad case", err)
	}
	osLike = true // what an *os.File can do: data, then 0 bytes with EOF or with an error
	var srcs []*synthSrc
	var rcs []io.ReadCloser
	for _, s := range c.Sources {
		if s.End == "eager" {
			osLike = false
		}
		x := &synthSrc{data: symBytes(s.D), end: s.End}
		srcs = append(srcs, x)
		rcs = append(rcs, x)
	}
	want := symBytes(c.Text)
	var got []byte
	var lastErr error
	var panicked any
	func() {
		defer func() { panicked = recover() }()
		mrc := clicopy.NewMulti(rcs)
		buf := make([]byte, 8)
		for _, k := range c.Caps {
			n, err := mrc.Read(buf[:k])
			got = append(got, buf[:n]...)
			lastErr = err
			if err != nil {
				break
			}
		}
		if lastErr == io.EOF {
			// the end stays the end
			if n, err := mrc.Read(buf[:1]); n != 0 || err != io.EOF {
				problem = "a Read after EOF returned data or another result"
			}
		}
		mrc.Close()
	}()
	switch {
	case panicked != nil:
		problem = "the reader panicked"
	case problem != "":
	case string(got) != string(want):
		problem = "the bytes delivered are not the concatenation of the sources up to the first failing one"
	case c.Err && (lastErr == nil || lastErr == io.EOF):
		problem = "a source failed and no error was returned: the rest of the input is dropped silently"
	case !c.Err && lastErr != io.EOF:
		problem = "no source failed but reading did not end with EOF"
	}
	for i, s := range srcs {
		if s.readsAfterClose > 0 {
			structural = "a source was read after it had been closed"
		}
		if i < len(c.Closed) && s.closed != c.Closed[i] {
			structural = "a source was closed another number of times than in the model"
		}
	}
	return problem, structural, osLike, len(c.Sources), map[string]any{"delivered": string(got), "error": errString(lastErr)},
		map[string]any{"text": string(want), "err": c.Err}
}

func cmdReaderReplay(a args) {
	res := newResult("C16")
	forEachTagged(a.str("cases", ""), "CASE", func(p []byte) {
		problem, structural, osLike, n, observed, expected := readerCase(p)
		res.Cases++
		res.Evaluations++
		if n > 1 {
			res.Nontrivial++
		}
		res.Checks["reader_schedules"]++
		if problem != "" && osLike {
			res.violate(Violation{Property: "C16", Kind: "cli_reader", InputB64: b64(string(p)), Reason: problem,
				Observed: observed, Expected: expected})
		} else if problem != "" || structural != "" {
			res.Drift++
			if len(res.DriftSample) < 5 {
				res.DriftSample = append(res.DriftSample, map[string]any{"case": json.RawMessage(p), "problem": problem + structural})
			}
		}
	})
	res.write(a.str("out", "result.json"))
}

func errString(err error) string {
	if err == nil {
		return "nil"
	}
	return err.Error()
}
