package main

import (
	"encoding/json"
	"strconv"
	"strings"

	"github.com/runreveal/pql"
	"github.com/runreveal/pql/parser"
)

// replayOther re-executes a stored observation of the program-level
// properties against the code the harness was built with.
func replayOther(res *Result, rf replayFile, text string) {
	v := rf.Violation
	wdReplay = true
	startWatchdog(res, "")
	pc := &progChecker{res: res, layouts: 1, seen: map[string]bool{}, traceSeen: map[string]bool{}}
	extra, _ := v.Extra.(map[string]any)
	reenc := func(x any, into any) {
		b, _ := json.Marshal(x)
		json.Unmarshal(b, into)
	}
	switch v.Kind {
	case "panic", "hang", "sql_xor_error", "compiled_unparsable":
		pc.totalityChecks(text)
		keep := res.Violations[:0]
		for _, w := range res.Violations {
			if w.Property == rf.Property {
				keep = append(keep, w)
			}
		}
		res.Violations = keep
		res.NViolations = len(keep)
	case "valid_program_rejected", "tree_differs":
		stmts, err := parser.Parse(text)
		if err != nil {
			res.violate(Violation{Property: "C07", Kind: v.Kind, Reason: "rejected: " + firstLine(err.Error())})
			return
		}
		if d := firstDiff("", v.Expected, roundTrip(projStmts(stmts))); d != "" {
			res.violate(Violation{Property: "C07", Kind: v.Kind, Reason: "tree differs at " + d})
		}
	case "accepted_tree_malformed":
		// decided by TLC (StmtOK); reproduced when Parse still accepts the source
		// with the same tree
		stmts, err := parser.Parse(text)
		if err == nil && (v.Observed == nil || firstDiff("", v.Observed, roundTrip(projStmts(stmts))) == "") {
			res.violate(Violation{Property: "C07", Kind: v.Kind, Reason: "still accepted with the same tree"})
		}
	case "tokens_not_accounted":
		stmts, err := parser.Parse(text)
		if err != nil {
			return
		}
		var real []gTok
		for _, t := range parser.Scan(text) {
			real = append(real, gTok{K: kindName(t.Kind), V: t.Value})
		}
		if !accounts(real, projStmts(stmts)) {
			res.violate(Violation{Property: "C08", Kind: v.Kind, Reason: "Parse succeeds and the tree does not account for all tokens"})
		}
	case "span":
		var c progCase
		var ext [][2]int
		reenc(extra["toks"], &c.Toks)
		reenc(extra["ext"], &ext)
		stmts, err := parser.Parse(text)
		if err != nil {
			return
		}
		if msg := pc.spanChecks(text, &c, ext, listNodes(stmts)); msg != "" {
			res.violate(Violation{Property: "C10", Kind: v.Kind, Reason: msg})
		}
	case "implicit_column_name":
		_, _, sql, cerr := pc.totalityChecks(text)
		alias, _ := extra["alias"].(string)
		if cerr == nil && !strings.Contains(sql, alias) {
			res.violate(Violation{Property: "C10", Kind: v.Kind, Reason: "alias " + alias + " not in the output"})
		}
	case "error_position":
		if msg := errorPositionChecks(text); msg != "" {
			res.violate(Violation{Property: "C10", Kind: v.Kind, Reason: msg})
		}
	case "walk":
		stmts, err := parser.Parse(text)
		if err != nil {
			return
		}
		nodes := listNodes(stmts)
		for i, s := range stmts {
			sub := subNodes(nodes, strconv.Itoa(i))
			if msg := pc.walkChecks(text, s, sub, 1000); msg != "" {
				res.violate(Violation{Property: "C11", Kind: v.Kind, Reason: msg})
				return
			}
		}
	case "meaning_differs", "layout_changes_output", "irrelevant_binding_changes_output", "result_differs",
		"statement_unreadable", "statement_precedence-dependent", "statement_malformed":
		// decided by TLC on the recorded SQL; reproduced when the code still emits that SQL
		var sql string
		var cerr error
		var opts *pql.CompileOptions
		if pm, ok := extra["params"].(map[string]any); ok && pm != nil {
			opts = &pql.CompileOptions{Parameters: map[string]string{}}
			for k, x := range pm {
				opts.Parameters[k], _ = x.(string)
			}
		}
		guarded(text, "Compile", func() { sql, cerr = opts.Compile(text) })
		if obs, _ := v.Observed.(string); cerr == nil && sql == obs {
			res.violate(Violation{Property: rf.Property, Kind: v.Kind, Reason: "still compiles to the rejected SQL: " + sql})
		}
	case "output_not_lexable":
		var sql string
		var cerr error
		guarded(text, "Compile", func() { sql, cerr = pql.Compile(text) })
		if cerr == nil {
			if msg := lexableSQL(lexSQL(sql, "std")); msg != "" {
				res.violate(Violation{Property: rf.Property, Kind: v.Kind, Reason: msg})
			}
		}
	case "statement_shape":
		var sql string
		var cerr error
		guarded(text, "Compile", func() { sql, cerr = pql.Compile(text) })
		if cerr == nil {
			if msg := statementShape(sql, lexSQL(sql, "std")); msg != "" {
				res.violate(Violation{Property: rf.Property, Kind: v.Kind, Reason: msg})
			}
		}
	case "valid_expression_not_compiled":
		var cerr error
		guarded(text, "Compile", func() { _, cerr = pql.Compile(text) })
		if cerr != nil {
			res.violate(Violation{Property: rf.Property, Kind: v.Kind, Reason: firstLine(cerr.Error())})
		}
	case "content_is_syntax", "content_changes_result":
		cc := &c04checker{res: res, base: map[string]skel{}}
		tmpl, _ := extra["template"].(string)
		content, _ := extra["content"].(string)
		asName, _ := extra["as_name"].(bool)
		if tmpl == "" {
			fatal("replay file lacks the template")
		}
		cc.checkContent(content, []string{tmpl}, asName, nil)
	case "number_value", "number_is_syntax":
		lx := strings.TrimPrefix(text, "T | where a == ")
		if i := strings.Index(lx, " | take"); i >= 0 {
			lx = lx[:i]
		}
		checkNumber(res, lx)
	case "valid_program_not_compiled":
		if _, _, _, cerr := pc.totalityChecks(text); cerr != nil {
			res.violate(Violation{Property: "C13", Kind: v.Kind, Reason: firstLine(cerr.Error())})
		}
	case "planted_violation_compiled":
		if _, _, _, cerr := pc.totalityChecks(text); cerr == nil {
			res.violate(Violation{Property: "C13", Kind: v.Kind, Reason: "still compiles"})
		}
	default:
		fatal("no replay procedure for", rf.Property, v.Kind)
	}
}

func roundTrip(x any) any {
	b, _ := json.Marshal(x)
	var out any
	json.Unmarshal(b, &out)
	return out
}

func subNodes(nodes []nodeInfo, prefix string) []nodeInfo {
	var sub []nodeInfo
	base := -1
	for j, n := range nodes {
		if n.Path == prefix || strings.HasPrefix(n.Path, prefix+"/") {
			if base < 0 {
				base = j
			}
			m := n
			if m.Parent >= 0 {
				m.Parent -= base
			}
			sub = append(sub, m)
		}
	}
	return sub
}
