package main

import (
	"encoding/json"
	"os"
	"os/exec"
	"path/filepath"
	"reflect"
	"strconv"
	"strings"

	"github.com/runreveal/pql"
	"github.com/runreveal/pql/parser"
)

// replayOther re-executes a stored observation of the program-level
// properties against the code the harness was built with.
func replayOther(res *Result, rf replayFile, text string) {
	v := rf.Violation
	wdReplay = true
	startWatchdog(res, "")
	pc := &progChecker{res: res, layouts: 1, seen: map[string]bool{}, traceSeen: map[string]bool{}}
	extra, _ := v.Extra.(map[string]any)
	reenc := func(x any, into any) {
		b, _ := json.Marshal(x)
		json.Unmarshal(b, into)
	}
	switch v.Kind {
	case "panic", "hang", "sql_xor_error", "compiled_unparsable":
		pc.totalityChecks(text)
		if call, _ := extra["call"].(string); call == "Span" {
			// the hang was in a Span method of the tree (Compile calls them for implicit column names)
			stmts, _ := parser.Parse(text) // also the partial tree returned with an error
			for _, n := range listNodes(stmts) {
				guarded(text, "Span", func() { n.Node.Span() })
			}
		}
		keep := res.Violations[:0]
		for _, w := range res.Violations {
			if w.Property == rf.Property {
				keep = append(keep, w)
			}
		}
		res.Violations = keep
		res.NViolations = len(keep)
	case "valid_program_rejected", "tree_differs":
		stmts, err := parser.Parse(text)
		if err != nil {
			res.violate(Violation{Property: "C07", Kind: v.Kind, Reason: "rejected: " + firstLine(err.Error())})
			return
		}
		if d := firstDiff("", v.Expected, roundTrip(projStmts(stmts))); d != "" {
			res.violate(Violation{Property: "C07", Kind: v.Kind, Reason: "tree differs at " + d})
		}
	case "accepted_tree_malformed":
		// decided by TLC (StmtOK); reproduced when Parse still accepts the source
		// with the same tree
		stmts, err := parser.Parse(text)
		if err == nil && (v.Observed == nil || firstDiff("", v.Observed, roundTrip(projStmts(stmts))) == "") {
			res.violate(Violation{Property: "C07", Kind: v.Kind, Reason: "still accepted with the same tree"})
		}
	case "tokens_not_accounted":
		stmts, err := parser.Parse(text)
		if err != nil {
			return
		}
		var real []gTok
		for _, t := range parser.Scan(text) {
			real = append(real, gTok{K: kindName(t.Kind), V: t.Value})
		}
		if !accounts(real, projStmts(stmts)) {
			res.violate(Violation{Property: "C08", Kind: v.Kind, Reason: "Parse succeeds and the tree does not account for all tokens"})
		}
	case "span":
		var c progCase
		var ext [][2]int
		reenc(extra["toks"], &c.Toks)
		reenc(extra["ext"], &ext)
		stmts, err := parser.Parse(text)
		if err != nil {
			return
		}
		if msg := pc.spanChecks(text, &c, ext, listNodes(stmts)); msg != "" {
			res.violate(Violation{Property: "C10", Kind: v.Kind, Reason: msg})
		}
	case "implicit_column_name":
		_, _, sql, cerr := pc.totalityChecks(text)
		alias, _ := extra["alias"].(string)
		if cerr == nil && !strings.Contains(viaJSON(sql), alias) {
			res.violate(Violation{Property: "C10", Kind: v.Kind, Reason: "alias " + alias + " not in the output"})
		}
	case "error_position":
		if msg := errorPositionChecks(text); msg != "" {
			res.violate(Violation{Property: "C10", Kind: v.Kind, Reason: msg})
		}
	case "walk":
		stmts, err := parser.Parse(text)
		if err != nil {
			return
		}
		nodes := listNodes(stmts)
		for i, s := range stmts {
			sub := subNodes(nodes, strconv.Itoa(i))
			if msg := pc.walkChecks(text, s, sub, 1000); msg != "" {
				res.violate(Violation{Property: "C11", Kind: v.Kind, Reason: msg})
				return
			}
		}
	case "meaning_differs", "layout_changes_output", "irrelevant_binding_changes_output", "result_differs",
		"statement_unreadable", "statement_precedence-dependent", "statement_malformed":
		// decided by TLC on the recorded SQL; reproduced when the code still emits that SQL
		var sql string
		var cerr error
		var opts *pql.CompileOptions
		if pm, ok := extra["params"].(map[string]any); ok && pm != nil {
			opts = &pql.CompileOptions{Parameters: map[string]string{}}
			for k, x := range pm {
				opts.Parameters[k], _ = x.(string)
			}
		}
		guarded(text, "Compile", func() { sql, cerr = opts.Compile(text) })
		if obs, _ := v.Observed.(string); cerr == nil && viaJSON(sql) == obs { // obs went through JSON: compare like with like
			res.violate(Violation{Property: rf.Property, Kind: v.Kind, Reason: "still compiles to the rejected SQL: " + sql})
		}
	case "output_not_lexable":
		var sql string
		var cerr error
		guarded(text, "Compile", func() { sql, cerr = pql.Compile(text) })
		if cerr == nil {
			if msg := lexableSQL(lexSQL(sql, "std")); msg != "" {
				res.violate(Violation{Property: rf.Property, Kind: v.Kind, Reason: msg})
			}
		}
	case "cli_output", "cli_overlong_line", "cli_unreadable_file":
		bin := os.Getenv("VERIF_CLI_BIN")
		if bin == "" {
			fatal("VERIF_CLI_BIN not set")
		}
		dir, _ := os.MkdirTemp("", "clireplay")
		defer os.RemoveAll(dir)
		switch v.Kind {
		case "cli_unreadable_file":
			if exec.Command(bin, filepath.Join(dir, "does-not-exist.pql")).Run() == nil {
				res.violate(Violation{Property: "C16", Kind: v.Kind, Reason: "exit status 0"})
			}
		case "cli_overlong_line":
			long := "let v1 = 1;\nT1 | where a == v1;\nT2 | where s == '" + strings.Repeat("x", 70000) + "';\nT3 | count;\n"
			mode, _ := extra["mode"].(float64)
			r := runCLI(bin, dir, long, int(mode), 1)
			third, _ := pql.Compile("T3 | count")
			if !strings.Contains(r.stdout, third) && (r.exit == 0 || nonEmptyLines(r.stderr) == 0) {
				res.violate(Violation{Property: "C16", Kind: v.Kind, Reason: "input dropped silently"})
			}
		default:
			mode, _ := extra["mode"].(float64)
			want, _ := extra["expected_stdout"].(string)
			fails, _ := extra["real_failures"].(float64)
			r := runCLI(bin, dir, text, int(mode), 1)
			if r.stdout != want || (fails > 0 && r.exit == 0) || nonEmptyLines(r.stderr) < int(fails) ||
				(fails == 0 && r.exit != 0 && strings.Contains(v.Reason, "no statement failed")) {
				res.violate(Violation{Property: "C16", Kind: v.Kind, Reason: "same output again"})
			}
		}
	case "cli_reader":
		if problem, _, osLike, _, _, _ := readerCase([]byte(text)); problem != "" && osLike {
			res.violate(Violation{Property: "C16", Kind: v.Kind, Reason: problem})
		}
	case "cli_io":
		// judged by TLC (CliInput.tla) on the recorded observation; reproduced when the binary behaves the same again
		bin := os.Getenv("VERIF_CLI_BIN")
		if bin == "" {
			fatal("VERIF_CLI_BIN not set")
		}
		dir, _ := os.MkdirTemp("", "clireplay")
		defer os.RemoveAll(dir)
		var run cliIoRun
		reenc(extra["run"], &run)
		var was struct {
			Obs cliObs `json:"obs"`
		}
		reenc(v.Observed, &was)
		obs, r := runCliIo(bin, dir, 1, &run)
		if r.timedOut || (obs.Exit == was.Obs.Exit && (obs.ErrLines > 0) == (was.Obs.ErrLines > 0) && reflect.DeepEqual(obs.Blocks, was.Obs.Blocks)) {
			res.violate(Violation{Property: "C16", Kind: v.Kind, Reason: "same behaviour again: " + v.Reason})
		}
	case "data_race", "concurrent_result", "worker_crashed", "worker_hung", "hook_log_rejected":
		// concurrency findings are re-examined by running bursts again in a -race build
		raceBin := os.Getenv("VERIF_RACE_BIN")
		if raceBin == "" {
			fatal("VERIF_RACE_BIN not set")
		}
		dir, _ := os.MkdirTemp("", "concreplay")
		defer os.RemoveAll(dir)
		for try := 0; try < 6 && res.NViolations == 0; try++ {
			cmd := exec.Command(raceBin, "conc-worker", "--out", filepath.Join(dir, "o.json"), "--seed", strconv.Itoa(try+1), "--bursts", "6", "--fresh", "1")
			cmd.Env = append(os.Environ(), "GORACE=log_path="+filepath.Join(dir, "race")+" exitcode=0 halt_on_error=0")
			err := cmd.Run()
			ms, _ := filepath.Glob(filepath.Join(dir, "race.*"))
			ob, _ := os.ReadFile(filepath.Join(dir, "o.json"))
			if err != nil || len(ms) > 0 || strings.Contains(string(ob), "\"problem\"") {
				res.violate(Violation{Property: "C14", Kind: v.Kind, Reason: "concurrent bursts fail again"})
			}
		}
	case "statement_shape":
		var sql string
		var cerr error
		guarded(text, "Compile", func() { sql, cerr = pql.Compile(text) })
		if cerr == nil {
			if msg := statementShape(sql, lexSQL(sql, "std")); msg != "" {
				res.violate(Violation{Property: rf.Property, Kind: v.Kind, Reason: msg})
			}
		}
	case "valid_expression_not_compiled":
		var cerr error
		guarded(text, "Compile", func() { _, cerr = pql.Compile(text) })
		if cerr != nil {
			res.violate(Violation{Property: rf.Property, Kind: v.Kind, Reason: firstLine(cerr.Error())})
		}
	case "content_is_syntax", "content_changes_result":
		cc := &c04checker{res: res, base: map[string]skel{}}
		tmpl, _ := extra["template"].(string)
		content, _ := extra["content"].(string)
		if cb, ok := extra["content_b64"].(string); ok {
			// contents with bytes that are not UTF-8 do not survive JSON as text
			if raw, err := base64Decode(cb); err == nil {
				content = raw
			}
		}
		asName, _ := extra["as_name"].(bool)
		if tmpl == "" {
			fatal("replay file lacks the template")
		}
		cc.checkContent(content, []string{tmpl}, asName, nil)
	case "number_value", "number_is_syntax":
		lx := strings.TrimPrefix(text, "T | where a == ")
		if i := strings.Index(lx, " | take"); i >= 0 {
			lx = lx[:i]
		}
		checkNumber(res, lx)
	case "valid_program_not_compiled":
		if _, _, _, cerr := pc.totalityChecks(text); cerr != nil {
			res.violate(Violation{Property: "C13", Kind: v.Kind, Reason: firstLine(cerr.Error())})
		}
	case "planted_violation_compiled":
		if _, _, _, cerr := pc.totalityChecks(text); cerr == nil {
			res.violate(Violation{Property: "C13", Kind: v.Kind, Reason: "still compiles"})
		}
	default:
		fatal("no replay procedure for", rf.Property, v.Kind)
	}
}

// viaJSON is what a string looks like after it was stored in a replay file (bytes that are not UTF-8 are replaced).
func viaJSON(s string) string {
	b, _ := json.Marshal(s)
	var out string
	json.Unmarshal(b, &out)
	return out
}

func roundTrip(x any) any {
	b, _ := json.Marshal(x)
	var out any
	json.Unmarshal(b, &out)
	return out
}

func subNodes(nodes []nodeInfo, prefix string) []nodeInfo {
	var sub []nodeInfo
	base := -1
	for j, n := range nodes {
		if n.Path == prefix || strings.HasPrefix(n.Path, prefix+"/") {
			if base < 0 {
				base = j
			}
			m := n
			if m.Parent >= 0 {
				m.Parent -= base
			}
			sub = append(sub, m)
		}
	}
	return sub
}
