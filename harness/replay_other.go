package main

func replayOther(res *Result, rf replayFile, text string) {
	fatal("no replay procedure for property", rf.Property)
}
