package main

import (
	"context"
	"encoding/json"
	"fmt"
	"os"
	"os/exec"
	"reflect"
	"runtime/debug"
	"strings"
	"sync/atomic"
	"time"

	"github.com/runreveal/pql"
	"github.com/runreveal/pql/parser"
)

// ---------------------------------------------------------------------------
// watchdog: a call into the code under test that does not return within the
// limit is a C12 violation; the process cannot kill the stuck goroutine, so it
// writes the result file and exits with status 3.

type current struct {
	text  string
	what  string
	start time.Time
}

var (
	curCall    atomic.Pointer[current]
	wdResult   *Result
	wdOut      string
	wdLimit    = 15 * time.Second
	wdReplay   bool
	hangExitRC = 3
)

func startWatchdog(res *Result, out string) {
	wdResult, wdOut = res, out
	if s := os.Getenv("VERIF_HANG_SECONDS"); s != "" {
		if d, err := time.ParseDuration(s + "s"); err == nil {
			wdLimit = d
		}
	}
	go func() {
		for {
			time.Sleep(250 * time.Millisecond)
			c := curCall.Load()
			if c != nil && time.Since(c.start) > wdLimit {
				v := Violation{Property: "C12", Kind: "hang", InputB64: b64(c.text),
					Reason: fmt.Sprintf("%s did not return within %v", c.what, wdLimit), Extra: map[string]any{"call": c.what}}
				if wdReplay {
					fmt.Println("REPRODUCED C12 hang:", v.Reason)
					os.Exit(0)
				}
				wdResult.violate(v)
				if wdResult.Property != "C12" {
					v2 := v
					v2.Property = wdResult.Property
					wdResult.violate(v2)
				}
				wdResult.Notes = append(wdResult.Notes, "run aborted at the first hang; remaining cases not executed")
				wdResult.write(wdOut)
				os.Exit(hangExitRC)
			}
		}
	}()
}

// guarded runs f, which calls the code under test on text; it returns the
// panic value and stack if f panicked.
func guarded(text, what string, f func()) (panicked any, stack string) {
	curCall.Store(&current{text: text, what: what, start: time.Now()})
	defer func() {
		curCall.Store(nil)
		if r := recover(); r != nil {
			panicked = r
			stack = string(debug.Stack())
		}
	}()
	f()
	return nil, ""
}

// ---------------------------------------------------------------------------

type progCase struct {
	Fam  string `json:"fam"`
	Ch   any    `json:"ch"`
	Toks []gTok `json:"toks"`
	Tree []any  `json:"tree"`
	// expectations set by the generator family (absent: valid program)
	ExpectParse   string `json:"xp,omitempty"`
	ExpectCompile string `json:"xc,omitempty"`
	// Walk.tla's visit log for the program (C11)
	Visits []struct {
		P string `json:"p"`
		T string `json:"t"`
	} `json:"visits,omitempty"`
	// the parser model's verdict on a token-only case ("ok" | "err"), for drift reporting
	ModelParse string `json:"mp,omitempty"`
}

var paramMaps = []map[string]string{
	nil,
	{},
	{"a": "$1", "v": "{v:String}", "true": "1", "T": "other"},
}

type progChecker struct {
	res     *Result
	layouts int
	prune   int
	seen    map[string]bool
	// trace of successful parses for TLC (TraceParse)
	trace     *json.Encoder
	side      *json.Encoder
	traceN    int
	traceCap  int
	traceSeen map[string]bool
}

// recordParse evaluates the C08 pre-filter on a successful parse and writes
// the observation for TLC.
func (pc *progChecker) recordParse(text string, stmts []parser.Statement) {
	if pc.trace == nil || pc.traceSeen[text] {
		return
	}
	var real []gTok
	for _, t := range parser.Scan(text) {
		real = append(real, gTok{K: kindName(t.Kind), V: t.Value})
	}
	if real == nil {
		real = []gTok{}
	}
	proj := projStmts(stmts)
	ok := accounts(real, proj)
	pc.res.Checks["accounting_prefilter"]++
	if ok && pc.traceN >= pc.traceCap {
		return
	}
	pc.traceSeen[text] = true
	pc.traceN++
	kv := make([]map[string]string, len(real))
	for i, t := range real {
		kv[i] = map[string]string{"k": t.K, "v": t.V}
	}
	pc.trace.Encode(map[string]any{"id": pc.traceN, "toks": kv, "tree": withPrintFlags(any(proj))})
	pc.side.Encode(map[string]any{"id": pc.traceN, "b64": b64(text), "go_accounted": ok})
}

func (pc *progChecker) panicViolation(prop, text, what string, p any, stack string) {
	if len(stack) > 1500 {
		stack = stack[:1500]
	}
	pc.res.violate(Violation{Property: prop, Kind: "panic", InputB64: b64(text),
		Reason: fmt.Sprintf("%s panicked: %v", what, p), Extra: map[string]any{"call": what, "stack": stack}})
}

// totalityChecks: C12 (+ the either/or clause of C13) on an arbitrary text.
// It returns the statements of a successful parse (nil otherwise) and the
// result of Compile without options.
func (pc *progChecker) totalityChecks(text string) (stmts []parser.Statement, perr error, sql string, cerr error) {
	res := pc.res
	res.Checks["total_calls"]++
	if p, st := guarded(text, "Scan", func() { parser.Scan(text) }); p != nil {
		pc.panicViolation("C12", text, "Scan", p, st)
	}
	if p, st := guarded(text, "SplitStatements", func() { parser.SplitStatements(text) }); p != nil {
		pc.panicViolation("C12", text, "SplitStatements", p, st)
	}
	if p, st := guarded(text, "Parse", func() { stmts, perr = parser.Parse(text) }); p != nil {
		pc.panicViolation("C12", text, "Parse", p, st)
		return nil, fmt.Errorf("panic"), "", fmt.Errorf("panic")
	}
	if perr == nil {
		for _, s := range stmts {
			s := s
			if p, st := guarded(text, "Walk", func() { parser.Walk(s, func(parser.Node) bool { return true }) }); p != nil {
				pc.panicViolation("C12", text, "Walk", p, st)
				pc.panicViolation("C11", text, "Walk", p, st)
			}
		}
	}
	for i, pm := range paramMaps {
		var s string
		var e error
		var opts *pql.CompileOptions
		if i > 0 {
			opts = &pql.CompileOptions{Parameters: pm}
		}
		if p, st := guarded(text, "Compile", func() { s, e = opts.Compile(text) }); p != nil {
			pc.panicViolation("C12", text, "Compile", p, st)
			pc.panicViolation("C13", text, "Compile", p, st)
			if i == 0 {
				cerr = fmt.Errorf("panic")
			}
			continue
		}
		res.Checks["either_or"]++
		if (s == "") != (e != nil) {
			res.violate(Violation{Property: "C13", Kind: "sql_xor_error", InputB64: b64(text),
				Observed: map[string]any{"sql": s, "err": fmt.Sprint(e)},
				Reason:   "Compile returned both or neither of SQL and error"})
		}
		if e == nil && perr != nil {
			res.violate(Violation{Property: "C13", Kind: "compiled_unparsable", InputB64: b64(text),
				Observed: map[string]any{"sql": s, "parse_error": perr.Error()},
				Reason:   "Compile succeeded on a source that Parse rejects"})
		}
		if i == 0 {
			sql, cerr = s, e
		}
	}
	return
}

func extentOf(toks []gTok, ext [][2]int, pred func(gTok) bool) (parser.Span, bool) {
	first, last := -1, -1
	for i, t := range toks {
		if pred(t) {
			if first < 0 {
				first = i
			}
			last = i
		}
	}
	if first < 0 {
		return parser.Span{Start: -1, End: -1}, false
	}
	return parser.Span{Start: ext[first][0], End: ext[last][1]}, true
}

// spanChecks: C10 on a successfully parsed generated program.
func (pc *progChecker) spanChecks(text string, c *progCase, ext [][2]int, nodes []nodeInfo) string {
	for _, n := range nodes {
		want, ok := extentOf(c.Toks, ext, func(t gTok) bool { return t.P == n.Path || strings.HasPrefix(t.P, n.Path+"/") })
		if !ok {
			return fmt.Sprintf("node %s at %s has no tokens in the specification's print", n.Type, n.Path)
		}
		var got parser.Span
		if p, _ := guarded(text, "Span", func() { got = n.Node.Span() }); p != nil {
			return fmt.Sprintf("%s.Span() at %s panicked: %v", n.Type, n.Path, p)
		}
		if got != want {
			return fmt.Sprintf("%s.Span() at %s = %v %q, the extent of its tokens is %v %q", n.Type, n.Path, got, safeSlice(text, got), want, safeSlice(text, want))
		}
		for role, gotPart := range n.Parts {
			wantPart, ok := extentOf(c.Toks, ext, func(t gTok) bool { return t.P == n.Path && t.R == role })
			if !ok {
				if gotPart.IsValid() {
					return fmt.Sprintf("%s at %s: span of absent part %q is %v, want an invalid span", n.Type, n.Path, role, gotPart)
				}
				continue
			}
			if gotPart != wantPart {
				return fmt.Sprintf("%s at %s: span of part %q = %v %q, its lexeme is at %v %q", n.Type, n.Path, role, gotPart, safeSlice(text, gotPart), wantPart, safeSlice(text, wantPart))
			}
		}
	}
	return ""
}

// stripSpanFlags removes the fields of a projected tree that only say whether a span is valid.
func stripSpanFlags(x any) any {
	switch x := x.(type) {
	case map[string]any:
		out := make(map[string]any, len(x))
		for k, v := range x {
			if k == "ascGiven" || k == "nullsGiven" || k == "by" || k == "with" {
				continue
			}
			out[k] = stripSpanFlags(v)
		}
		return out
	case []any:
		out := make([]any, len(x))
		for i, v := range x {
			out[i] = stripSpanFlags(v)
		}
		return out
	default:
		return x
	}
}

func safeSlice(text string, sp parser.Span) string {
	if sp.IsValid() && sp.End <= len(text) {
		return text[sp.Start:sp.End]
	}
	return "<invalid>"
}

func isNilNode(n parser.Node) bool {
	if n == nil {
		return true
	}
	v := reflect.ValueOf(n)
	return v.Kind() == reflect.Ptr && v.IsNil()
}

// walkChecks: C11 on one statement's nodes.
func (pc *progChecker) walkChecks(text string, stmt parser.Statement, nodes []nodeInfo, maxPrune int) string {
	index := map[parser.Node]int{}
	for i, n := range nodes {
		index[n.Node] = i
	}
	run := func(falseAt parser.Node) (log []parser.Node, problem string) {
		if p, _ := guarded(text, "Walk", func() {
			parser.Walk(stmt, func(n parser.Node) bool {
				if isNilNode(n) {
					problem = fmt.Sprintf("visitor called with a nil node (%T) after %d visits", n, len(log))
					return false
				}
				log = append(log, n)
				return n != falseAt
			})
		}); p != nil {
			return log, fmt.Sprintf("Walk panicked: %v", p)
		}
		return log, problem
	}
	log, problem := run(nil)
	if problem != "" {
		return problem
	}
	count := map[parser.Node]int{}
	pos := map[int]int{}
	for i, n := range log {
		count[n]++
		if count[n] > 1 {
			return fmt.Sprintf("%T visited twice", n)
		}
		if idx, ok := index[n]; ok {
			pos[idx] = i
		}
	}
	for i, n := range nodes {
		if n.Required && count[n.Node] != 1 {
			return fmt.Sprintf("%s at %s visited %d times", n.Type, n.Path, count[n.Node])
		}
		if p, ok := pos[i]; ok {
			for a := n.Parent; a >= 0; a = nodes[a].Parent {
				if pa, ok := pos[a]; ok && pa > p {
					return fmt.Sprintf("%s at %s visited before its ancestor %s at %s", n.Type, n.Path, nodes[a].Type, nodes[a].Path)
				}
			}
		}
	}
	// pruning
	isDesc := func(i, anc int) bool {
		for a := nodes[i].Parent; a >= 0; a = nodes[a].Parent {
			if a == anc {
				return true
			}
		}
		return false
	}
	step := 1
	if len(log) > maxPrune {
		step = len(log)/maxPrune + 1
	}
	for li := 0; li < len(log); li += step {
		k, ok := index[log[li]]
		if !ok {
			continue
		}
		pruned, problem := run(log[li])
		if problem != "" {
			return "with visitor false at " + nodes[k].Path + ": " + problem
		}
		got := map[parser.Node]bool{}
		for _, n := range pruned {
			if got[n] {
				return fmt.Sprintf("with visitor false at %s: %T visited twice", nodes[k].Path, n)
			}
			got[n] = true
		}
		for _, n := range log {
			idx, known := index[n]
			want := !(known && isDesc(idx, k))
			if got[n] != want {
				where := "?"
				if known {
					where = nodes[idx].Path
				}
				return fmt.Sprintf("with visitor false at %s (%s): node %T at %s visited=%v, want %v", nodes[k].Path, nodes[k].Type, n, where, got[n], want)
			}
		}
	}
	return ""
}

// checkGenerated evaluates C07, C10, C11, C12, C13(either/or) on one generated
// valid program in several layouts.
func (pc *progChecker) checkGenerated(c *progCase, rng interface {
	Intn(int) int
}) {
	res := pc.res
	res.Cases++
	res.Nontrivial++
	wantTree := stripPrintFlags(any(c.Tree))
	for layout := 0; layout < pc.layouts; layout++ {
		text, ext := renderTokens(c.Toks, layout, newRand(int64(rng.Intn(1<<30)), "layout"))
		if pc.seen[text] {
			continue
		}
		pc.seen[text] = true
		res.Evaluations++
		if res.Cases%499 == 1 && layout == pc.layouts-1 {
			res.sample(map[string]any{"family": c.Fam, "choice": c.Ch, "text": text})
		}
		stmts, perr, sql, cerr := pc.totalityChecks(text)
		extra := map[string]any{"family": c.Fam, "choice": c.Ch, "layout": layout}
		if perr == nil {
			pc.recordParse(text, stmts)
		}
		if perr != nil || cerr != nil {
			res.Checks["error_positions"]++
			if msg := errorPositionChecks(text); msg != "" {
				res.violate(Violation{Property: "C10", Kind: "error_position", InputB64: b64(text), Extra: extra, Reason: msg})
			}
		}
		switch c.ExpectCompile {
		case "ok":
			res.Checks["rule_free_compiles"]++
			if cerr != nil {
				res.violate(Violation{Property: "C13", Kind: "valid_program_not_compiled", InputB64: b64(text), Extra: extra,
					Observed: cerr.Error(), Reason: "a program that breaks no documented rule failed to compile: " + firstLine(cerr.Error())})
			}
		case "err":
			res.Checks["planted_rejected"]++
			if cerr == nil {
				res.violate(Violation{Property: "C13", Kind: "planted_violation_compiled", InputB64: b64(text), Extra: extra,
					Observed: sql, Reason: "a program that breaks a documented rule was compiled"})
			}
		}
		if c.ModelParse != "" && (c.ModelParse == "ok") != (perr == nil) {
			res.Drift++
			if len(res.DriftSample) < 5 {
				res.DriftSample = append(res.DriftSample, map[string]any{"text": text, "ParseMachine": c.ModelParse, "Parse_error": fmt.Sprint(perr)})
			}
		}
		if c.ExpectParse != "ok" {
			continue
		}
		res.Checks["parse_tree_vs_grammar"]++
		if perr != nil {
			res.violate(Violation{Property: "C07", Kind: "valid_program_rejected", InputB64: b64(text), Extra: extra,
				Expected: wantTree, Observed: perr.Error(), Reason: "a program of the grammar was rejected: " + firstLine(perr.Error())})
			continue
		}
		got := any(projStmts(stmts))
		// whether an optional keyword was written is recorded in the tree only as a span: that part of the
		// comparison belongs to the span checks below (C10), the rest is the shape of the tree (C07)
		if d := firstDiff("", stripSpanFlags(wantTree), stripSpanFlags(got)); d != "" {
			res.violate(Violation{Property: "C07", Kind: "tree_differs", InputB64: b64(text), Extra: extra,
				Expected: wantTree, Observed: got, Reason: "tree differs from the grammar's (grammar vs Parse) at " + d})
			continue
		}
		nodes := listNodes(stmts)
		res.Checks["spans"]++
		if msg := pc.spanChecks(text, c, ext, nodes); msg != "" {
			res.violate(Violation{Property: "C10", Kind: "span", InputB64: b64(text), Reason: msg,
				Extra: map[string]any{"family": c.Fam, "choice": c.Ch, "layout": layout, "toks": c.Toks, "ext": ext}})
		}
		res.Checks["walk"]++
		for i, s := range stmts {
			sub := subNodes(nodes, fmt.Sprintf("%d", i))
			if msg := pc.walkChecks(text, s, sub, pc.prune); msg != "" {
				res.violate(Violation{Property: "C11", Kind: "walk", InputB64: b64(text), Extra: extra, Reason: msg})
				break
			}
		}
		if len(c.Visits) > 0 {
			// the real visits (always-true visitor) are exactly the nodes Walk.tla visits
			res.Checks["walk_vs_spec"]++
			want := map[string]int{}
			for _, v := range c.Visits {
				want[v.P+" "+v.T]++
			}
			index := map[parser.Node]int{}
			for i, n := range nodes {
				index[n.Node] = i
			}
			got := map[string]int{}
			for _, s := range stmts {
				guarded(text, "Walk", func() {
					parser.Walk(s, func(n parser.Node) bool {
						if isNilNode(n) {
							got["<nil>"]++
						} else if i, ok := index[n]; ok {
							got[nodes[i].Path+" "+nodes[i].Type]++
						} else {
							got[fmt.Sprintf("<unlisted %T>", n)]++
						}
						return true
					})
				})
			}
			if !reflect.DeepEqual(want, got) {
				diff := ""
				for k, n := range want {
					if got[k] != n {
						diff = fmt.Sprintf("%s visited %d times, Walk.tla visits it %d times", k, got[k], n)
						break
					}
				}
				if diff == "" {
					for k, n := range got {
						if want[k] != n {
							diff = fmt.Sprintf("%s visited %d times, Walk.tla visits it %d times", k, n, want[k])
							break
						}
					}
				}
				res.violate(Violation{Property: "C11", Kind: "walk", InputB64: b64(text), Extra: extra, Reason: "visits differ from the specification's: " + diff})
			}
		}
		// implicit column names are the source text of their expression (C10)
		if cerr == nil {
			for _, n := range nodes {
				var name *parser.Ident
				var x parser.Expr
				switch col := n.Node.(type) {
				case *parser.ExtendColumn:
					name, x = col.Name, col.X
				case *parser.SummarizeColumn:
					name, x = col.Name, col.X
				default:
					continue
				}
				if name != nil || x == nil {
					continue
				}
				want, ok := extentOf(c.Toks, ext, func(t gTok) bool { return strings.HasPrefix(t.P, n.Path+"/x") })
				if !ok {
					continue
				}
				res.Checks["implicit_names"]++
				alias := " AS " + sqlQuoteIdent(text[want.Start:want.End])
				if !strings.Contains(sql, alias) {
					res.violate(Violation{Property: "C10", Kind: "implicit_column_name", InputB64: b64(text),
						Extra: map[string]any{"family": c.Fam, "choice": c.Ch, "layout": layout, "alias": alias},
						Observed: sql, Reason: "the implicit column name is not the source text of its expression: expected" + alias})
				}
			}
		}
	}
	if len(pc.seen) > 300000 {
		pc.seen = map[string]bool{}
	}
}

func sqlQuoteIdent(s string) string { return `"` + strings.ReplaceAll(s, `"`, `""`) + `"` }

func firstLine(s string) string {
	if i := strings.IndexByte(s, '\n'); i >= 0 {
		return s[:i]
	}
	return s
}

// cmdProgReplay: generated programs (CASE lines of GenProg) -> real code.
func cmdProgReplay(a args) {
	res := newResult(a.str("property", "C07"))
	out := a.str("out", "result.json")
	startWatchdog(res, out)
	pc := &progChecker{res: res, layouts: a.int("layouts", 4), prune: a.int("prune", 3), seen: map[string]bool{}, traceSeen: map[string]bool{},
		traceCap: a.int("trace-cap", 30000)}
	if tp := a.str("trace", ""); tp != "" {
		tf, err := os.Create(tp)
		if err != nil {
			fatal(err)
		}
		defer tf.Close()
		sf, err := os.Create(a.str("side", tp+".side"))
		if err != nil {
			fatal(err)
		}
		defer sf.Close()
		pc.trace, pc.side = json.NewEncoder(tf), json.NewEncoder(sf)
	}
	rng := newRand(int64(a.int("seed", 1)), "prog-replay")
	// random token soups and byte strings (C12 totality, C08 for the accepted ones)
	if n := a.int("soups", 0); n > 0 {
		srng := newRand(int64(a.int("seed", 1)), "soups")
		for i := 0; i < n; i++ {
			text := randomLexInput(srng)
			if i%3 == 0 {
				text = "T | " + []string{"where ", "project ", "summarize ", "sort by ", "extend ", "join (B) on ", "take ", "top 1 by ", "render x with ("}[srng.Intn(9)] + text
			}
			if pc.seen[text] {
				continue
			}
			pc.seen[text] = true
			res.Cases++
			res.Evaluations++
			stmts, perr, _, cerr := pc.totalityChecks(text)
			if perr == nil {
				res.Nontrivial++
				pc.recordParse(text, stmts)
			}
			if perr != nil || cerr != nil {
				res.Checks["error_positions"]++
				if msg := errorPositionChecks(text); msg != "" {
					res.violate(Violation{Property: "C10", Kind: "error_position", InputB64: b64(text), Reason: msg})
				}
			}
		}
	}
	for _, f := range strings.Split(a.str("cases", ""), ",") {
		if f == "" {
			continue
		}
		n := forEachTagged(f, "CASE", func(p []byte) {
			var c progCase
			if err := json.Unmarshal(p, &c); err != nil {
				fatal("bad case", err, string(p[:min(len(p), 300)]))
			}
			pc.checkGenerated(&c, rng)
		})
		if n == 0 {
			fatal("no CASE lines in", f)
		}
	}
	if res.Property == "C12" {
		// chains of lets that double their value: the output grows as 2^n for an input of 21 bytes per let.
		// Run in a child process: 29 lets (650 bytes) need several GB and more than half a minute.
		src := letChain(29)
		res.Checks["let_chain_probe"]++
		res.Evaluations++
		if exe, err := os.Executable(); err == nil {
			ctx, cancel := context.WithTimeout(context.Background(), wdLimit)
			cmd := exec.CommandContext(ctx, exe, "probe-letchain", "--depth", "29")
			err := cmd.Run()
			cancel()
			if ctx.Err() != nil || err != nil {
				res.violate(Violation{Property: "C12", Kind: "hang", InputB64: b64(src),
					Reason: fmt.Sprintf("Compile did not return within %v on a %d-byte program (the value of each let doubles the previous one)", wdLimit, len(src)),
					Extra: map[string]any{"call": "Compile", "probe": "let chain of 29"}})
			}
		}
	}
	res.write(out)
}

// cmdParseTraceCheck reads TLC's verdicts on the recorded successful parses.
func cmdParseTraceCheck(a args) {
	prop := a.str("property", "C08")
	res := newResult(prop)
	type sideRec struct {
		ID  int    `json:"id"`
		B64 string `json:"b64"`
		Go  bool   `json:"go_accounted"`
	}
	side := map[int]sideRec{}
	b, err := os.ReadFile(a.str("side", ""))
	if err != nil {
		fatal(err)
	}
	for _, line := range strings.Split(string(b), "\n") {
		if line == "" {
			continue
		}
		var r sideRec
		if err := json.Unmarshal([]byte(line), &r); err != nil {
			fatal(err)
		}
		side[r.ID] = r
	}
	n := forEachTagged(a.str("verdicts", ""), "TV", func(p []byte) {
		var v struct {
			ID         int  `json:"id"`
			Accounted  bool `json:"accounted"`
			Wellformed bool `json:"wellformed"`
		}
		if err := json.Unmarshal(p, &v); err != nil {
			fatal("bad verdict", err)
		}
		r, ok := side[v.ID]
		if !ok {
			fatal("verdict for unknown id", v.ID)
		}
		res.Cases++
		res.Evaluations++
		res.Nontrivial++
		res.Checks["accepted_sources_validated_by_TLC"]++
		if v.Accounted != r.Go {
			fatal(fmt.Sprintf("pre-filter and TLC disagree on record %d (go=%v tlc=%v): %s", v.ID, r.Go, v.Accounted, r.B64))
		}
		if res.Cases%997 == 1 {
			raw, _ := base64Decode(r.B64)
			res.sample(map[string]any{"accepted_source": raw, "accounted": v.Accounted, "wellformed": v.Wellformed})
		}
		if !v.Accounted {
			res.violate(Violation{Property: "C08", Kind: "tokens_not_accounted", InputB64: r.B64,
				Reason: "Parse succeeded but re-printing the returned tree does not give back the source's tokens"})
		}
		if !v.Wellformed {
			res.violate(Violation{Property: "C07", Kind: "accepted_tree_malformed", InputB64: r.B64,
				Reason: "Parse succeeded with a tree that violates the grammar's operand levels or defaults"})
		}
	})
	if n != len(side) {
		fatal(fmt.Sprintf("TLC answered %d of %d trace records", n, len(side)))
	}
	res.write(a.str("out", "result.json"))
}

// errorPositionChecks: C10 for failed parses / compiles: every span of the
// partial tree is invalid or inside the source, and line:column prefixes of
// the error text point into the source.
func errorPositionChecks(text string) string {
	var stmts []parser.Statement
	var perr error
	if p, _ := guarded(text, "Parse", func() { stmts, perr = parser.Parse(text) }); p != nil {
		return "" // reported by the totality checks
	}
	for _, n := range listNodes(stmts) {
		var sp parser.Span
		if p, _ := guarded(text, "Span", func() { sp = n.Node.Span() }); p != nil {
			return fmt.Sprintf("%s.Span() panicked on a partial tree: %v", n.Type, p)
		}
		if sp.IsValid() && sp.End > len(text) {
			return fmt.Sprintf("%s.Span() = %v reaches beyond the source (length %d)", n.Type, sp, len(text))
		}
		if !sp.IsValid() && !(sp.Start == -1 && sp.End == -1) && !(sp.Start >= 0 && sp.End >= 0) {
			return fmt.Sprintf("%s.Span() = %v is neither valid nor the null span", n.Type, sp)
		}
		for role, ps := range n.Parts {
			if ps.IsValid() && ps.End > len(text) {
				return fmt.Sprintf("%s part %q = %v reaches beyond the source", n.Type, role, ps)
			}
		}
	}
	check := func(err error, what string) string {
		if err == nil {
			return ""
		}
		lines := strings.Split(text, "\n")
		for _, l := range strings.Split(err.Error(), "\n") {
			l = strings.TrimPrefix(l, "parse pipeline query language: ")
			var ln, col int
			if n, _ := fmt.Sscanf(l, "%d:%d:", &ln, &col); n != 2 {
				continue
			}
			if ln < 1 || ln > len(lines) {
				return fmt.Sprintf("%s error %q: line %d is outside the source (%d lines)", what, firstLine(l), ln, len(lines))
			}
			// column of the position after the last character of that line (tab stops every 8)
			maxCol := 1
			for _, c := range lines[ln-1] {
				if c == '\t' {
					maxCol += 8 - (maxCol-1)%8
				} else {
					maxCol++
				}
			}
			if col < 1 || col > maxCol {
				return fmt.Sprintf("%s error %q: column %d is outside line %d (columns 1..%d)", what, firstLine(l), col, ln, maxCol)
			}
		}
		return ""
	}
	if msg := check(perr, "Parse"); msg != "" {
		return msg
	}
	var cerr error
	if p, _ := guarded(text, "Compile", func() { _, cerr = pql.Compile(text) }); p != nil {
		return ""
	}
	return check(cerr, "Compile")
}


func letChain(n int) string {
	var sb strings.Builder
	sb.WriteString("let a0 = 1; ")
	for i := 1; i <= n; i++ {
		fmt.Fprintf(&sb, "let a%d = a%d + a%d; ", i, i-1, i-1)
	}
	fmt.Fprintf(&sb, "T | take a%d", n)
	return sb.String()
}

func cmdProbeLetChain(a args) {
	sql, err := pql.Compile(letChain(a.int("depth", 29)))
	fmt.Println(len(sql), err)
}
