package main

import (
	"encoding/json"
	"fmt"
	"os"
	"strings"

	"github.com/runreveal/pql"
	"github.com/runreveal/pql/parser"
)

// C02 / C03 / C05: compile generated pipelines for real, lex the statement,
// write trace records for TLC (PlanCheck).

func tablesOf(stmts []parser.Statement) []string {
	seen := map[string]bool{}
	var out []string
	var visit func(t *parser.TabularExpr)
	visit = func(t *parser.TabularExpr) {
		if t == nil {
			return
		}
		if ref, ok := t.Source.(*parser.TableRef); ok && ref != nil && ref.Table != nil && !seen[ref.Table.Name] {
			seen[ref.Table.Name] = true
			out = append(out, ref.Table.Name)
		}
		for _, op := range t.Operators {
			if j, ok := op.(*parser.JoinOperator); ok {
				visit(j.Right)
			}
		}
	}
	for _, s := range stmts {
		if t, ok := s.(*parser.TabularExpr); ok {
			visit(t)
		}
	}
	if out == nil {
		out = []string{}
	}
	return out
}

// asNamesOf: the names the source chose itself with `as` (only generated names are promised to be unique).
func asNamesOf(stmts []parser.Statement) []string {
	out := []string{}
	var visit func(t *parser.TabularExpr)
	visit = func(t *parser.TabularExpr) {
		if t == nil {
			return
		}
		for _, op := range t.Operators {
			switch op := op.(type) {
			case *parser.AsOperator:
				if op != nil && op.Name != nil {
					out = append(out, op.Name.Name)
				}
			case *parser.JoinOperator:
				if op != nil {
					visit(op.Right)
				}
			}
		}
	}
	for _, s := range stmts {
		if t, ok := s.(*parser.TabularExpr); ok {
			visit(t)
		}
	}
	return out
}

// statementShape: the clauses of C05 that need no reader.
func statementShape(sql string, toks []sTok) string {
	if msg := lexableSQL(toks); msg != "" {
		return msg
	}
	if len(toks) == 0 || toks[len(toks)-1].K != "op" || toks[len(toks)-1].V != ";" {
		return "the statement does not end in a semicolon"
	}
	depth := 0
	var stack []string
	for i, t := range toks {
		if t.K != "op" {
			continue
		}
		switch t.V {
		case ";":
			if i != len(toks)-1 {
				return "a statement separator inside the statement"
			}
		case "(", "[":
			stack = append(stack, t.V)
			depth++
		case ")", "]":
			want := "("
			if t.V == "]" {
				want = "["
			}
			if len(stack) == 0 || stack[len(stack)-1] != want {
				return "unbalanced brackets"
			}
			stack = stack[:len(stack)-1]
		}
	}
	if len(stack) != 0 {
		return "unbalanced brackets"
	}
	if strings.Contains(sql, "unhandled") && strings.Contains(sql, "/*") {
		return "an internal placeholder reached the output"
	}
	return ""
}

type planWriter struct {
	res   *Result
	te    *json.Encoder
	se    *json.Encoder
	id    int
	seen  map[string]bool
	limit int
}

func newPlanWriter(res *Result, path string, limit int) (*planWriter, func()) {
	tf, err := os.Create(path)
	if err != nil {
		fatal(err)
	}
	sf, err := os.Create(path + ".side")
	if err != nil {
		fatal(err)
	}
	return &planWriter{res: res, te: json.NewEncoder(tf), se: json.NewEncoder(sf), seen: map[string]bool{}, limit: limit},
		func() { tf.Close(); sf.Close() }
}

// record compiles text and, on success, writes the observation.  tab is the
// model's tree of the query (nil: statement shape only).
func (pw *planWriter) record(prop, fam, text string, tab any, extra any, mustCompile bool) {
	res := pw.res
	if pw.seen[text] {
		return
	}
	pw.seen[text] = true
	res.Evaluations++
	var sql string
	var cerr error
	if p, st := guarded(text, "Compile", func() { sql, cerr = pql.Compile(text) }); p != nil {
		res.violate(Violation{Property: "C12", Kind: "panic", InputB64: b64(text), Reason: fmt.Sprintf("Compile panicked: %v", p),
			Extra: map[string]any{"call": "Compile", "stack": st[:min(len(st), 1200)]}})
		return
	}
	if cerr != nil {
		if mustCompile {
			res.violate(Violation{Property: prop, Kind: "valid_program_not_compiled", InputB64: b64(text), Extra: extra,
				Observed: cerr.Error(), Reason: "a pipeline of the grammar failed to compile: " + firstLine(cerr.Error())})
		}
		return
	}
	toks := lexSQL(sql, "ch") // names and literals decode under the target dialect's rules
	res.Checks["statement_shape"]++
	if msg := statementShape(sql, toks); msg != "" {
		res.violate(Violation{Property: "C05", Kind: "statement_shape", InputB64: b64(text), Extra: extra, Observed: sql, Reason: msg})
		if prop != "C05" {
			res.violate(Violation{Property: prop, Kind: "statement_shape", InputB64: b64(text), Extra: extra, Observed: sql, Reason: msg})
		}
		return
	}
	if tab == nil {
		if pw.seen["sql:"+sql] || (pw.limit > 0 && pw.id >= pw.limit) {
			return
		}
		pw.seen["sql:"+sql] = true
	}
	stmts, _ := parser.Parse(text)
	pw.id++
	var tabRec any = noneNode
	if tab != nil {
		tabRec = withPrintFlags(tab)
	}
	pw.te.Encode(map[string]any{"id": pw.id, "fam": fam, "tab": tabRec, "tables": tablesOf(stmts), "user": asNamesOf(stmts), "sql": sqlTokensJSON(toks)})
	pw.se.Encode(map[string]any{"id": pw.id, "b64": b64(text), "sql": sql, "extra": extra, "fam": fam})
	if pw.id%499 == 1 {
		res.sample(map[string]any{"pql": text, "sql": sql})
	}
}

// cmdPlanReplay: CASE lines of PlanCheck (C02 "seq", C03 "join") or of GenProg (C05, statement shape).
func cmdPlanReplay(a args) {
	prop := a.str("property", "C02")
	res := newResult(prop)
	out := a.str("out", "result.json")
	startWatchdog(res, out)
	pw, closeFn := newPlanWriter(res, a.str("trace", "plan.ndjson"), a.int("stmt-cap", 40000))
	defer closeFn()
	rng := newRand(int64(a.int("seed", 1)), "plan")
	for _, f := range strings.Split(a.str("cases", ""), ",") {
		if f == "" {
			continue
		}
		forEachTagged(f, "CASE", func(p []byte) {
			var c progCase
			if err := json.Unmarshal(p, &c); err != nil {
				fatal("bad case", err)
			}
			res.Cases++
			res.Nontrivial++
			extra := map[string]any{"family": c.Fam, "choice": c.Ch}
			if c.Fam == "seq" || c.Fam == "join" {
				// minimal separators: implicit column names are the source text
				text, _ := renderTokens(c.Toks, 1, nil)
				if prop == "C05" {
					pw.record(prop, "stmt", text, nil, extra, true) // shape only; C02 / C03 judge the meaning
				} else {
					pw.record(prop, c.Fam, text, c.Tree[0], extra, true)
				}
				return
			}
			// other families: the statement's shape only, in two layouts
			for _, lay := range []int{1, 2} {
				text, _ := renderTokens(c.Toks, lay, newRand(int64(rng.Intn(1<<30)), "l"))
				pw.record(prop, "stmt", text, nil, extra, c.ExpectCompile == "ok")
			}
		})
	}
	for i, n := 0, a.int("soups", 0); i < n; i++ {
		text := randomLexInput(rng)
		if i%2 == 0 {
			text = "T | " + []string{"where ", "project ", "summarize ", "sort by ", "extend ", "join (B) on ", "take ", "top 1 by ", "render x with ("}[rng.Intn(9)] + text
		}
		res.Cases++
		pw.record(prop, "stmt", text, nil, "soup", false)
	}
	res.Checks["trace_records"] = pw.id
	res.write(out)
}

func cmdPlanTraceCheck(a args) {
	prop := a.str("property", "C02")
	res := newResult(prop)
	type sideRec struct {
		ID    int    `json:"id"`
		B64   string `json:"b64"`
		SQL   string `json:"sql"`
		Fam   string `json:"fam"`
		Extra any    `json:"extra"`
	}
	side := map[int]sideRec{}
	b, err := os.ReadFile(a.str("side", ""))
	if err != nil {
		fatal(err)
	}
	for _, line := range strings.Split(string(b), "\n") {
		if line == "" {
			continue
		}
		var r sideRec
		if err := json.Unmarshal([]byte(line), &r); err != nil {
			fatal(err)
		}
		side[r.ID] = r
	}
	n := 0
	for _, vf := range strings.Split(a.str("verdicts", ""), ",") {
		if vf == "" {
			continue
		}
		n += forEachTagged(vf, "TV", func(p []byte) {
			var v struct {
				ID    int    `json:"id"`
				OK    bool   `json:"ok"`
				Why   string `json:"why"`
				DB    any    `json:"db"`
				Drift bool   `json:"drift"`
			}
			if err := json.Unmarshal(p, &v); err != nil {
				fatal("bad verdict", err)
			}
			r, ok := side[v.ID]
			if !ok {
				fatal("verdict for unknown id", v.ID)
			}
			res.Cases++
			res.Evaluations++
			res.Nontrivial++
			res.Checks["statements_validated_by_TLC"]++
			if v.Drift {
				res.Drift++
				if len(res.DriftSample) < 5 {
					res.DriftSample = append(res.DriftSample, map[string]any{"pql": mustDecode(r.B64), "sql": r.SQL})
				}
			}
			if v.OK {
				return
			}
			extra := map[string]any{"case": r.Extra, "database": v.DB, "family": r.Fam}
			switch v.Why {
			case "differs":
				p := "C02"
				if r.Fam == "join" {
					p = "C03"
				}
				res.violate(Violation{Property: p, Kind: "result_differs", InputB64: r.B64, Extra: extra, Observed: r.SQL,
					Reason: "on the given database the SQL returns another table than the operators applied left to right"})
			default:
				reason := map[string]string{
					"unreadable":           "the output does not read as [WITH name AS (select), ...] select;",
					"precedence-dependent": "the output reads differently under the ClickHouse and the standard precedence table",
					"malformed":            "a FROM/JOIN reads something that is neither a table of the source nor an earlier CTE, a generated CTE name repeats, or a CTE is unused",
				}[v.Why]
				res.violate(Violation{Property: "C05", Kind: "statement_" + v.Why, InputB64: r.B64, Extra: extra, Observed: r.SQL, Reason: reason})
				if prop != "C05" {
					res.violate(Violation{Property: prop, Kind: "statement_" + v.Why, InputB64: r.B64, Extra: extra, Observed: r.SQL, Reason: reason})
				}
			}
		})
	}
	if n != len(side) {
		fatal(fmt.Sprintf("TLC answered %d of %d trace records", n, len(side)))
	}
	res.write(a.str("out", "result.json"))
}

func mustDecode(b string) string {
	s, _ := base64Decode(b)
	return s
}
