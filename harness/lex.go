package main

import (
	"encoding/base64"
	"encoding/json"
	"fmt"
	"math"
	"math/big"
	"os"
	"strconv"
	"strings"
	"unicode"
	"unicode/utf8"

	"github.com/runreveal/pql/parser"
)

// model token: kind, extent in characters, value atoms
type mTok struct {
	K string `json:"k"`
	S int    `json:"s"`
	E int    `json:"e"`
	V []int  `json:"v"`
}

type lexCase struct {
	ID     int      `json:"id"`
	Src    []string `json:"src"`
	Toks   []mTok   `json:"toks"`
	Pieces [][2]int `json:"pieces"`
}

// concrete token for reports
type cTok struct {
	K string `json:"k"`
	S int    `json:"s"`
	E int    `json:"e"`
	V string `json:"v"`
}

// Token values may hold bytes that are not UTF-8; JSON text would replace them, so such values travel as base64.
func (t cTok) MarshalJSON() ([]byte, error) {
	type plain struct {
		K  string `json:"k"`
		S  int    `json:"s"`
		E  int    `json:"e"`
		V  string `json:"v"`
		VB string `json:"vb,omitempty"`
	}
	p := plain{K: t.K, S: t.S, E: t.E, V: t.V}
	if !utf8.ValidString(t.V) {
		p.VB = base64.StdEncoding.EncodeToString([]byte(t.V))
	}
	return json.Marshal(p)
}

func (t *cTok) UnmarshalJSON(b []byte) error {
	var p struct {
		K  string `json:"k"`
		S  int    `json:"s"`
		E  int    `json:"e"`
		V  string `json:"v"`
		VB string `json:"vb"`
	}
	if err := json.Unmarshal(b, &p); err != nil {
		return err
	}
	t.K, t.S, t.E, t.V = p.K, p.S, p.E, p.V
	if p.VB != "" {
		raw, err := base64.StdEncoding.DecodeString(p.VB)
		if err != nil {
			return err
		}
		t.V = string(raw)
	}
	return nil
}

func kindName(k parser.TokenKind) string {
	return strings.TrimPrefix(k.String(), "Token")
}

func realTokens(text string) []cTok {
	toks := parser.Scan(text)
	out := make([]cTok, len(toks))
	for i, t := range toks {
		out[i] = cTok{K: kindName(t.Kind), S: t.Span.Start, E: t.Span.End, V: t.Value}
	}
	return out
}

// expectedTokens turns the model's tokens into concrete ones for the given
// concretisation.
func expectedTokens(mt []mTok, offs []int, chars []string) []cTok {
	out := make([]cTok, len(mt))
	for i, t := range mt {
		var sb strings.Builder
		for j := 0; j < len(t.V); j++ {
			a := t.V[j]
			switch {
			case a >= 1:
				sb.WriteString(chars[a-1])
			case a == 0:
				sb.WriteByte('0')
			case a == -1:
				sb.WriteByte('\n')
			case a == -2:
				sb.WriteByte('\t')
			case a == -16:
				var hex strings.Builder
				for _, p := range t.V[j+1:] {
					hex.WriteString(chars[p-1])
				}
				n, ok := new(big.Int).SetString(hex.String(), 16)
				if !ok {
					fatal("bad hex digits from model", hex.String())
				}
				sb.WriteString(n.String())
				j = len(t.V)
			}
		}
		out[i] = cTok{K: t.K, S: offs[t.S], E: offs[t.E], V: sb.String()}
	}
	return out
}

func sameTokens(exp, got []cTok) (bool, string) {
	if len(exp) != len(got) {
		return false, fmt.Sprintf("token count: spec %d, Scan %d", len(exp), len(got))
	}
	for i := range exp {
		e, g := exp[i], got[i]
		if e.K != g.K || e.S != g.S || e.E != g.E {
			return false, fmt.Sprintf("token %d: spec %s[%d,%d), Scan %s[%d,%d)", i, e.K, e.S, e.E, g.K, g.S, g.E)
		}
		if e.K != "Error" && e.V != g.V {
			return false, fmt.Sprintf("token %d (%s): value spec %q, Scan %q", i, e.K, e.V, g.V)
		}
	}
	return true, ""
}

// blankGap reports whether text consists only of white space and // comments
// (independent of the code under test).
func blankGap(text string) bool {
	for i := 0; i < len(text); {
		c, n := utf8.DecodeRuneInString(text[i:])
		switch {
		case unicode.IsSpace(c):
			i += n
		case c == '/' && strings.HasPrefix(text[i:], "//"):
			j := strings.IndexByte(text[i:], '\n')
			if j < 0 {
				return true
			}
			i += j + 1
		default:
			return false
		}
	}
	return true
}

// universalLexChecks evaluates the model-independent clauses of C09 on a real
// token list.  It returns "" or a description of the first failure.
func universalLexChecks(text string, toks []parser.Token) string {
	prevEnd := 0
	for i, t := range toks {
		if t.Span.Start < prevEnd || t.Span.End <= t.Span.Start || t.Span.End > len(text) {
			return fmt.Sprintf("token %d %s%v out of order / bounds (previous end %d, source length %d)", i, t.Kind, t.Span, prevEnd, len(text))
		}
		if !blankGap(text[prevEnd:t.Span.Start]) {
			return fmt.Sprintf("gap %q before token %d is not white space / comment", text[prevEnd:t.Span.Start], i)
		}
		prevEnd = t.Span.End
		// rescan stability
		own := parser.Scan(text[t.Span.Start:t.Span.End])
		if len(own) != 1 || own[0].Kind != t.Kind || own[0].Span.Start != 0 || own[0].Span.End != t.Span.Len() ||
			(t.Kind != parser.TokenError && own[0].Value != t.Value) {
			return fmt.Sprintf("token %d %s %q does not rescan to itself: %v", i, t.Kind, text[t.Span.Start:t.Span.End], own)
		}
		if t.Kind == parser.TokenNumber {
			if msg := numericChecks(text[t.Span.Start:t.Span.End], t); msg != "" {
				return fmt.Sprintf("token %d: %s", i, msg)
			}
		}
	}
	if !blankGap(text[prevEnd:]) {
		return fmt.Sprintf("trailing gap %q is not white space / comment", text[prevEnd:])
	}
	return ""
}

// numericChecks: the normalised value and the accessors agree with the spelling.
func numericChecks(lexeme string, t parser.Token) string {
	lit := &parser.BasicLit{Kind: t.Kind, Value: t.Value, ValueSpan: t.Span}
	isHex := len(lexeme) > 1 && (lexeme[1] == 'x' || lexeme[1] == 'X')
	var want *big.Rat
	wantFloat := false
	if isHex {
		n, ok := new(big.Int).SetString(lexeme[2:], 16)
		if !ok {
			return "spelling is not hexadecimal: " + lexeme
		}
		want = new(big.Rat).SetInt(n)
	} else {
		wantFloat = strings.ContainsAny(lexeme, ".eE")
		r, ok := ratOfDecimal(lexeme)
		if !ok {
			return "spelling is not a number: " + lexeme
		}
		want = r
	}
	got, ok := ratOfDecimal(t.Value)
	if !ok {
		return fmt.Sprintf("value %q of %q is not a decimal spelling", t.Value, lexeme)
	}
	if want == errHugeExponent || got == errHugeExponent {
		if (want == errHugeExponent) != (got == errHugeExponent) {
			return fmt.Sprintf("value %q denotes another number than %q", t.Value, lexeme)
		}
		return ""
	}
	if got.Cmp(want) != 0 {
		return fmt.Sprintf("value %q denotes another number than %q", t.Value, lexeme)
	}
	if lit.IsFloat() != wantFloat || lit.IsInteger() != !wantFloat {
		return fmt.Sprintf("IsFloat/IsInteger of %q (value %q) = %v/%v", lexeme, t.Value, lit.IsFloat(), lit.IsInteger())
	}
	if !wantFloat {
		if want.IsInt() && want.Num().IsUint64() {
			if lit.Uint64() != want.Num().Uint64() {
				return fmt.Sprintf("Uint64 of %q = %d", lexeme, lit.Uint64())
			}
			f, _ := new(big.Float).SetInt(want.Num()).Float64()
			if lit.Float64() != f {
				return fmt.Sprintf("Float64 of %q = %v, want %v", lexeme, lit.Float64(), f)
			}
		}
	} else {
		f, err := strconv.ParseFloat(lexeme, 64)
		if err == nil {
			if lit.Float64() != f {
				return fmt.Sprintf("Float64 of %q = %v, want %v", lexeme, lit.Float64(), f)
			}
			if f >= 0 && f < math.Exp2(63) && lit.Uint64() != uint64(f) {
				return fmt.Sprintf("Uint64 of %q = %d, want %d", lexeme, lit.Uint64(), uint64(f))
			}
		}
	}
	return ""
}

// errHugeExponent is returned for spellings whose exponent is too large to
// expand exactly; such literals are compared by spelling only.
var errHugeExponent = new(big.Rat)

func ratOfDecimal(s string) (*big.Rat, bool) {
	if s == "" {
		return nil, false
	}
	mant, exp := s, ""
	if i := strings.IndexAny(s, "eE"); i >= 0 {
		mant, exp = s[:i], s[i+1:]
		if exp == "" {
			return nil, false
		}
	}
	intPart, frac := mant, ""
	if i := strings.IndexByte(mant, '.'); i >= 0 {
		intPart, frac = mant[:i], mant[i+1:]
	}
	digits := intPart + frac
	if digits == "" {
		return nil, false
	}
	for _, c := range digits {
		if c < '0' || c > '9' {
			return nil, false
		}
	}
	n, _ := new(big.Int).SetString(digits, 10)
	r := new(big.Rat).SetInt(n)
	e := -len(frac)
	if exp != "" {
		x, err := strconv.Atoi(exp)
		if err != nil || x > 5000 || x < -5000 {
			for _, c := range strings.TrimLeft(exp, "+-") {
				if c < '0' || c > '9' {
					return nil, false
				}
			}
			return errHugeExponent, true
		}
		e += x
	}
	p := new(big.Int).Exp(big.NewInt(10), big.NewInt(int64(abs(e))), nil)
	if e >= 0 {
		r.Mul(r, new(big.Rat).SetInt(p))
	} else {
		r.Quo(r, new(big.Rat).SetInt(p))
	}
	return r, true
}

func abs(x int) int {
	if x < 0 {
		return -x
	}
	return x
}

// splitChecks evaluates C15 on the real SplitStatements / Scan / Parse.
// expPieces (byte extents) may be nil when no model prediction is available.
func splitChecks(text string, expPieces [][2]int) string {
	pieces := parser.SplitStatements(text)
	toks := parser.Scan(text)
	if strings.Join(pieces, ";") != text {
		return fmt.Sprintf("joining the pieces with ';' gives %q", strings.Join(pieces, ";"))
	}
	semis := 0
	for _, t := range toks {
		if t.Kind == parser.TokenSemi {
			semis++
		}
	}
	if len(pieces) != semis+1 {
		return fmt.Sprintf("%d pieces for %d semicolon tokens", len(pieces), semis)
	}
	if expPieces != nil {
		if len(expPieces) != len(pieces) {
			return fmt.Sprintf("spec has %d pieces, SplitStatements %d", len(expPieces), len(pieces))
		}
		for i, e := range expPieces {
			if pieces[i] != text[e[0]:e[1]] {
				return fmt.Sprintf("piece %d: spec %q, SplitStatements %q", i, text[e[0]:e[1]], pieces[i])
			}
		}
	}
	off := 0
	ti := 0
	nonEmpty := 0
	for i, p := range pieces {
		own := parser.Scan(p)
		if len(own) > 0 {
			nonEmpty++
		}
		for _, t := range own {
			if t.Kind == parser.TokenSemi {
				return fmt.Sprintf("piece %d %q contains a semicolon token", i, p)
			}
			if ti >= len(toks) {
				return fmt.Sprintf("piece %d %q has more tokens alone than in context", i, p)
			}
			c := toks[ti]
			ti++
			if c.Kind != t.Kind || c.Span.Start != t.Span.Start+off || c.Span.End != t.Span.End+off ||
				(t.Kind != parser.TokenError && c.Value != t.Value) {
				return fmt.Sprintf("piece %d %q: token %s%v alone differs from %s%v in context", i, p, t.Kind, t.Span, c.Kind, c.Span)
			}
		}
		off += len(p) + 1
		if i < len(pieces)-1 {
			if ti >= len(toks) || toks[ti].Kind != parser.TokenSemi {
				return fmt.Sprintf("after piece %d the context has no semicolon token", i)
			}
			ti++
		}
	}
	if ti != len(toks) {
		return "tokens of the whole source are not the concatenation of the tokens of the pieces"
	}
	// Parse reports statements in the order and number of the non-empty pieces.
	stmts, err := parser.Parse(text)
	if err == nil {
		if len(stmts) != nonEmpty {
			return fmt.Sprintf("Parse returned %d statements for %d non-empty pieces", len(stmts), nonEmpty)
		}
		si := 0
		off = 0
		for _, p := range pieces {
			if len(parser.Scan(p)) > 0 {
				sp := stmts[si].Span()
				si++
				if !sp.IsValid() || sp.Start < off || sp.End > off+len(p) {
					return fmt.Sprintf("statement %d span %v is outside its piece [%d,%d)", si-1, sp, off, off+len(p))
				}
			}
			off += len(p) + 1
		}
	}
	return ""
}

// checkLexOne runs all lexer-level checks on one concrete text.
func checkLexOne(res *Result, prop string, text string, exp []cTok, expPieces [][2]int, extra any) {
	var toks []parser.Token
	if p, st := guarded(text, "Scan/SplitStatements", func() {
		toks = parser.Scan(text)
		parser.SplitStatements(text)
		parser.Parse(text)
	}); p != nil {
		res.violate(Violation{Property: prop, Kind: "panic", InputB64: b64(text), Extra: map[string]any{"stack": st[:min(len(st), 1200)], "case": extra},
			Reason: fmt.Sprintf("Scan / SplitStatements / Parse panicked: %v", p)})
		return
	}
	if prop == "C09" {
		got := make([]cTok, len(toks))
		for i, t := range toks {
			got[i] = cTok{K: kindName(t.Kind), S: t.Span.Start, E: t.Span.End, V: t.Value}
		}
		res.Checks["tokens_vs_spec"]++
		if ok, why := sameTokens(exp, got); !ok {
			res.violate(Violation{Property: "C09", Kind: "tokens_differ_from_LexRef", InputB64: b64(text),
				Extra: extra, Observed: got, Expected: exp, Reason: why})
			return
		}
		res.Checks["universal"]++
		if msg := universalLexChecks(text, toks); msg != "" {
			res.violate(Violation{Property: "C09", Kind: "universal_invariant", InputB64: b64(text), Extra: extra, Observed: got, Reason: msg})
		}
	} else {
		res.Checks["split"]++
		if msg := splitChecks(text, expPieces); msg != "" {
			res.violate(Violation{Property: "C15", Kind: "split_relation", InputB64: b64(text), Extra: extra,
				Observed: parser.SplitStatements(text), Reason: msg})
		}
	}
}

// cmdLexReplay: cases from TLC (model -> code).
func cmdLexReplay(a args) {
	prop := a.str("property", "C09")
	res := newResult(prop)
	reps := a.int("reps", 2)
	seed := int64(a.int("seed", 1))
	rng := newRand(seed, "lex-replay")
	seen := map[string]bool{}
	n := forEachTagged(a.str("cases", ""), "CASE", func(p []byte) {
		var c lexCase
		if err := json.Unmarshal(p, &c); err != nil {
			fatal("bad case", err, string(p))
		}
		res.Cases++
		if len(c.Toks) > 0 {
			res.Nontrivial++
		}
		for r := 0; r < reps; r++ {
			var text string
			var offs []int
			var chars []string
			if r == 0 {
				text, offs, chars = concretize(c.Src, nil)
			} else {
				text, offs, chars = concretize(c.Src, rng)
			}
			if back, _, _ := classify(text); strings.Join(back, " ") != strings.Join(c.Src, " ") {
				fatal("concretisation does not classify back", c.Src, back)
			}
			if seen[text] && r > 0 {
				continue
			}
			if r > 0 {
				seen[text] = true
			}
			res.Evaluations++
			exp := expectedTokens(c.Toks, offs, chars)
			var pcs [][2]int
			for _, e := range c.Pieces {
				pcs = append(pcs, [2]int{offs[e[0]], offs[e[1]]})
			}
			if res.Cases%9973 == 1 && r == 0 {
				res.sample(map[string]any{"classes": c.Src, "text": text, "spec_tokens": exp, "pieces": pcs})
			}
			checkLexOne(res, prop, text, exp, pcs, map[string]any{"classes": c.Src})
		}
		if len(seen) > 200000 {
			seen = map[string]bool{}
		}
	})
	if n == 0 {
		fatal("no CASE lines in", a.str("cases", ""))
	}
	res.write(a.str("out", "result.json"))
}

// ---------------------------------------------------------------------------
// code -> model: real inputs are classified and written for TLC (TraceLex),
// which answers with its tokens for each of them.

type lexTraceRec struct {
	ID   int      `json:"id"`
	Src  []string `json:"src"`
	Toks []mTok   `json:"toks"` // real tokens, extents in characters, no values
}

var lexPieces = []string{
	"and", "or", "in", "by", "a", "an", "andy", "b", "by_", "ina", "e", "x", "0x", "0X1f", "0xg", "1e5", "1e+", "1e-3", "1.5e+10",
	"0", "00", "007", "0.", "0.5", ".5", ".", "..", "1..2", "1.2.3", "0e0", "0e", "1E5", "0x0", "0xFFFFFFFFFFFFFFFF", "0x10000000000000000",
	"0x00000000000000001", "12345678901234567890", "1e400", "'", "\"", "`", "\\", "'a'", "\"b\"", "`c`", "``", "````", "`a``b`", "'it''s'",
	"'\\n'", "'\\t'", "'\\\\'", "'\\''", "\"\\\"\"", "'\\", "'\\\n'", "'abc", "\"abc\n", "`abc\n`", "// c\n", "//", "/", "/ /", "/*", "=", "==", "=~",
	"===", "!", "!=", "!~", "!!", "!a", "!;", "<", "<=", "<>", ">", ">=", "=>", "~", "|", "||", ",", ";", ";;", "(", ")", "[", "]", "+", "-", "--", "*", "%",
	"$left", "$right", "$", "$$", "a$b", "_x", "x_1", "é", "日本", "\xff", "\xc0\x80", "\x00", "#", "{", "}", "@", "\t", " ", "\n", "\r\n", "\u00a0", "\u2028",
	"where", "T", "| where x == 1", "'\xff'", "'\\n\xff'", "\"é\\t\"", "`é`", "x.y", "x.`y z`", "f(1, 2)", "a[0]", "a['k']",
}

func randomLexInput(rng interface{ Intn(int) int }) string {
	var sb strings.Builder
	n := 1 + rng.Intn(12)
	for i := 0; i < n; i++ {
		switch rng.Intn(10) {
		case 0:
			// raw random bytes
			m := 1 + rng.Intn(4)
			for j := 0; j < m; j++ {
				sb.WriteByte(byte(rng.Intn(256)))
			}
		case 1:
			// random class
			keys := []string{"L", "9", "0", "WS", "NL", "U", "BAD", "O", "BS", "SQ", "DQ", "BT", "SEMI", "SLASH", "DOT", "E", "X", "H"}
			reps := classReps[keys[rng.Intn(len(keys))]]
			sb.WriteString(reps[rng.Intn(len(reps))])
		default:
			sb.WriteString(lexPieces[rng.Intn(len(lexPieces))])
		}
		if rng.Intn(3) == 0 {
			sb.WriteByte(' ')
		}
	}
	return sb.String()
}

// cmdLexTrace writes trace.ndjson (for TLC) and inputs.ndjson (concrete bytes).
func cmdLexTrace(a args) {
	seed := int64(a.int("seed", 1))
	count := a.int("count", 2000)
	rng := newRand(seed, "lex-trace")
	tf, err := os.Create(a.str("trace", "trace.ndjson"))
	if err != nil {
		fatal(err)
	}
	defer tf.Close()
	inf, err := os.Create(a.str("inputs", "inputs.ndjson"))
	if err != nil {
		fatal(err)
	}
	defer inf.Close()
	var inputs []string
	for _, extra := range strings.Split(a.str("corpus", ""), ",") {
		if extra == "" {
			continue
		}
		inputs = append(inputs, corpusInputs(extra)...)
	}
	// programs generated by TLC (GenProg token lists: statement sequences, planted programs, ...) as texts
	for _, f := range strings.Split(a.str("programs", ""), ",") {
		if f == "" {
			continue
		}
		forEachTagged(f, "CASE", func(p []byte) {
			var c progCase
			if err := json.Unmarshal(p, &c); err != nil {
				fatal("bad case", err)
			}
			text, _ := renderTokens(c.Toks, len(inputs)%2, rng)
			inputs = append(inputs, text)
		})
	}
	// numeric literals at the edges of 63 / 64 bits and of float64, in both bases
	for _, lx := range []string{"9223372036854775807", "9223372036854775808", "18446744073709551615", "18446744073709551616",
		"0x7fffffffffffffff", "0xffffffffffffffff", "0x10000000000000000", "0x1ffffffffffffffff", "0X00000000000000000000001",
		"1e308", "1e309", "4e-400", "9007199254740993", "0.1234567890123456789012345678901234567890", "123456789012345678901234567890.5"} {
		inputs = append(inputs, lx, "T | where a == "+lx+";"+lx)
	}
	count += len(inputs)
	for len(inputs) < count {
		inputs = append(inputs, randomLexInput(rng))
	}
	te := json.NewEncoder(tf)
	ie := json.NewEncoder(inf)
	for id, text := range inputs {
		src, offs, _ := classify(text)
		if len(src) == 0 {
			src = []string{}
		}
		pos := map[int]int{}
		for i, o := range offs {
			pos[o] = i
		}
		toks := parser.Scan(text)
		rec := lexTraceRec{ID: id + 1, Src: src, Toks: []mTok{}}
		ok := true
		for _, t := range toks {
			s, ok1 := pos[t.Span.Start]
			e, ok2 := pos[t.Span.End]
			if !ok1 || !ok2 {
				ok = false // span not on a rune boundary: cannot be expressed; reported by the replay pass
				s, e = 0, 0
			}
			rec.Toks = append(rec.Toks, mTok{K: kindName(t.Kind), S: s, E: e, V: []int{}})
		}
		_ = ok
		te.Encode(rec)
		ie.Encode(map[string]any{"id": id + 1, "b64": b64(text)})
	}
}

// corpusInputs reads the queries of the repository's own tests (goldens).
func corpusInputs(dir string) []string {
	var out []string
	ents, err := os.ReadDir(dir)
	if err != nil {
		return nil
	}
	for _, e := range ents {
		if b, err := os.ReadFile(dir + "/" + e.Name() + "/input.pql"); err == nil {
			out = append(out, string(b))
		}
	}
	return out
}

type lexVerdict struct {
	ID   int      `json:"id"`
	OK   bool     `json:"ok"`
	Toks []mTok   `json:"toks"`
	Pcs  [][2]int `json:"pieces"`
}

// cmdLexTraceCheck reads TLC's verdicts (TV lines) and finishes the comparison
// (values, byte offsets) on the concrete inputs.
func cmdLexTraceCheck(a args) {
	prop := a.str("property", "C09")
	res := newResult(prop)
	inputs := map[int]string{}
	b, err := os.ReadFile(a.str("inputs", "inputs.ndjson"))
	if err != nil {
		fatal(err)
	}
	for _, line := range strings.Split(string(b), "\n") {
		if line == "" {
			continue
		}
		var rec struct {
			ID  int    `json:"id"`
			B64 string `json:"b64"`
		}
		if err := json.Unmarshal([]byte(line), &rec); err != nil {
			fatal(err)
		}
		raw, _ := base64.StdEncoding.DecodeString(rec.B64)
		inputs[rec.ID] = string(raw)
	}
	rejected := 0
	n := 0
	for _, vf := range strings.Split(a.str("verdicts", ""), ",") {
		n += forEachTagged(vf, "TV", func(p []byte) {
			var v lexVerdict
			if err := json.Unmarshal(p, &v); err != nil {
				fatal("bad verdict", err, string(p))
			}
			text, ok := inputs[v.ID]
			if !ok {
				fatal("verdict for unknown id", v.ID)
			}
			res.Cases++
			res.Evaluations++
			if len(v.Toks) > 1 {
				res.Nontrivial++
			}
			if !v.OK {
				rejected++
			}
			src, offs, chars := classify(text)
			exp := expectedTokens(v.Toks, offs, chars)
			var pcs [][2]int
			for _, e := range v.Pcs {
				pcs = append(pcs, [2]int{offs[e[0]], offs[e[1]]})
			}
			if res.Cases%397 == 1 {
				res.sample(map[string]any{"text": text, "classes": src, "spec_tokens": exp, "accepted_by_TLC": v.OK})
			}
			before := res.NViolations
			checkLexOne(res, prop, text, exp, pcs, map[string]any{"classes": src, "trace_id": v.ID})
			if prop == "C09" && !v.OK && res.NViolations == before {
				// TLC rejected kinds/extents but the concrete comparison agrees: harness bug
				fatal("TLC rejected trace record but concrete comparison accepts it", v.ID, text)
			}
		})
	}
	if n != len(inputs) {
		fatal(fmt.Sprintf("TLC answered %d of %d trace records", n, len(inputs)))
	}
	res.Checks["trace_records_rejected_by_TLC"] = rejected
	res.write(a.str("out", "result.json"))
}
