package main

import (
	"encoding/base64"
	"encoding/json"
	"fmt"
	"os"
)

type replayFile struct {
	Property  string    `json:"property"`
	Violation Violation `json:"violation"`
}

// cmdReplay re-executes the observation stored in a replay file against the
// code the harness was built with and prints REPRODUCED when the same clause
// fails again.
func cmdReplay(a args) {
	b, err := os.ReadFile(a.str("file", ""))
	if err != nil {
		fatal(err)
	}
	var rf replayFile
	if err := json.Unmarshal(b, &rf); err != nil {
		fatal(err)
	}
	raw, err := base64.StdEncoding.DecodeString(rf.Violation.InputB64)
	if err != nil {
		fatal(err)
	}
	text := string(raw)
	res := newResult(rf.Property)
	reproduce(res, rf, text)
	if res.NViolations > 0 {
		fmt.Println("REPRODUCED", rf.Property, rf.Violation.Kind)
		for _, v := range res.Violations {
			fmt.Println("  ", v.Reason)
		}
	} else {
		fmt.Println("NOT-REPRODUCED", rf.Property, rf.Violation.Kind)
	}
}

func reproduce(res *Result, rf replayFile, text string) {
	v := rf.Violation
	reenc := func(x any, into any) {
		b, _ := json.Marshal(x)
		json.Unmarshal(b, into)
	}
	switch rf.Property {
	case "C09":
		var exp []cTok
		reenc(v.Expected, &exp)
		if v.Kind == "universal_invariant" {
			exp = realTokens(text)
		}
		checkLexOne(res, "C09", text, exp, nil, nil)
	case "C15":
		checkLexOne(res, "C15", text, nil, nil, nil)
	default:
		replayOther(res, rf, text)
	}
}
