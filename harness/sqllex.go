package main

import (
	"strings"
	"unicode/utf8"
)

// sTok is a token of the emitted SQL: kind and decoded value (see spec/Sql.tla).
type sTok struct {
	K string `json:"k"`
	V string `json:"v"`
	// S, E: byte extent in the SQL text (not sent to TLC)
	S int `json:"-"`
	E int `json:"-"`
}

var sqlKeywords = map[string]bool{
	"SELECT": true, "FROM": true, "WHERE": true, "GROUP": true, "BY": true, "ORDER": true, "LIMIT": true, "AS": true,
	"WITH": true, "JOIN": true, "LEFT": true, "ON": true, "DISTINCT": true, "AND": true, "OR": true, "NOT": true,
	"IS": true, "NULL": true, "IN": true, "TRUE": true, "FALSE": true, "CASE": true, "WHEN": true, "THEN": true,
	"ELSE": true, "END": true, "ASC": true, "DESC": true, "NULLS": true, "FIRST": true, "LAST": true, "FILTER": true,
	"CURRENT_TIMESTAMP": true, "INNER": true, "OUTER": true, "UNION": true, "HAVING": true, "OFFSET": true,
}

func isIdentStartByte(c byte) bool { return c == '_' || 'a' <= c && c <= 'z' || 'A' <= c && c <= 'Z' }
func isDigitByte(c byte) bool      { return '0' <= c && c <= '9' }

// lexSQL tokenises SQL text under the standard rules (dialect "std": quotes
// are escaped by doubling only) or the ClickHouse rules (dialect "ch":
// additionally backslash escapes inside '...', "..." and `...`, and # comments).
func lexSQL(text string, dialect string) []sTok {
	var out []sTok
	i := 0
	n := len(text)
	emit := func(k, v string, s, e int) { out = append(out, sTok{K: k, V: v, S: s, E: e}) }
	for i < n {
		c := text[i]
		switch {
		case c == ' ' || c == '\n' || c == '\t' || c == '\r' || c == '\f' || c == '\v':
			i++
		case c == '-' && i+1 < n && text[i+1] == '-':
			j := strings.IndexByte(text[i:], '\n')
			if j < 0 {
				j = n - i
			}
			emit("cmt", text[i:i+j], i, i+j)
			i += j
		case c == '/' && i+1 < n && text[i+1] == '*':
			j := strings.Index(text[i+2:], "*/")
			if j < 0 {
				emit("bad", text[i:], i, n)
				i = n
			} else {
				emit("cmt", text[i:i+2+j+2], i, i+2+j+2)
				i += 2 + j + 2
			}
		case c == '#' && dialect == "ch" && (i+1 < n && (text[i+1] == ' ' || text[i+1] == '!')):
			j := strings.IndexByte(text[i:], '\n')
			if j < 0 {
				j = n - i
			}
			emit("cmt", text[i:i+j], i, i+j)
			i += j
		case c == '\'' || c == '"' || c == '`':
			// quoted string / identifier
			var sb strings.Builder
			j := i + 1
			closed := false
			for j < n {
				d := text[j]
				if d == '\\' && dialect == "ch" {
					if j+1 >= n {
						j = n
						break
					}
					e := text[j+1]
					switch e {
					case 'n':
						sb.WriteByte('\n')
					case 't':
						sb.WriteByte('\t')
					case '0':
						sb.WriteByte(0)
					case 'r':
						sb.WriteByte('\r')
					case 'b':
						sb.WriteByte('\b')
					case 'f':
						sb.WriteByte('\f')
					default:
						sb.WriteByte(e)
					}
					j += 2
					continue
				}
				if d == c {
					if j+1 < n && text[j+1] == c {
						sb.WriteByte(c)
						j += 2
						continue
					}
					closed = true
					j++
					break
				}
				sb.WriteByte(d)
				j++
			}
			if !closed {
				emit("bad", text[i:], i, n)
				i = n
				break
			}
			k := "str"
			if c != '\'' {
				k = "qid"
			}
			emit(k, sb.String(), i, j)
			i = j
		case isIdentStartByte(c):
			j := i + 1
			for j < n && (isIdentStartByte(text[j]) || isDigitByte(text[j])) {
				j++
			}
			w := text[i:j]
			if up := strings.ToUpper(w); sqlKeywords[up] {
				emit("kw", up, i, j)
			} else {
				emit("id", w, i, j)
			}
			i = j
		case isDigitByte(c) || c == '.' && i+1 < n && isDigitByte(text[i+1]):
			j := i
			for j < n && isDigitByte(text[j]) {
				j++
			}
			if j < n && text[j] == '.' {
				j++
				for j < n && isDigitByte(text[j]) {
					j++
				}
			}
			if j < n && (text[j] == 'e' || text[j] == 'E') {
				k := j + 1
				if k < n && (text[k] == '+' || text[k] == '-') {
					k++
				}
				if k < n && isDigitByte(text[k]) {
					for k < n && isDigitByte(text[k]) {
						k++
					}
					j = k
				}
			}
			if j < n && isIdentStartByte(text[j]) {
				// 12abc: not a number in SQL
				k := j
				for k < n && (isIdentStartByte(text[k]) || isDigitByte(text[k])) {
					k++
				}
				emit("bad", text[i:k], i, k)
				i = k
				break
			}
			emit("num", text[i:j], i, j)
			i = j
		case c == '{':
			j := strings.IndexByte(text[i:], '}')
			if j < 0 {
				emit("bad", text[i:], i, n)
				i = n
			} else {
				emit("ph", text[i:i+j+1], i, i+j+1)
				i += j + 1
			}
		case c == '$' || c == '?' || c == '@' || c == ':':
			j := i + 1
			for j < n && (isIdentStartByte(text[j]) || isDigitByte(text[j])) {
				j++
			}
			emit("ph", text[i:j], i, j)
			i = j
		default:
			two := ""
			if i+1 < n {
				two = text[i : i+2]
			}
			switch two {
			case "<>", "<=", ">=", "||", "!=", "==":
				emit("op", two, i, i+2)
				i += 2
				continue
			}
			if strings.IndexByte("()[],.;*/%+-=<>|!~", c) >= 0 {
				emit("op", string(c), i, i+1)
				i++
			} else {
				_, w := utf8.DecodeRuneInString(text[i:])
				emit("bad", text[i:i+w], i, i+w)
				i += w
			}
		}
	}
	return out
}
