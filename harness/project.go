package main

import (
	"fmt"
	"reflect"
	"strconv"
	"strings"

	"github.com/runreveal/pql/parser"
)

// Projection of the real syntax tree onto the record shape of spec/Grammar.tla,
// and enumeration of its nodes with the owner paths used by Toks.

type tree = map[string]any

var noneNode = tree{"k": "None"}

func projIdent(id *parser.Ident) any {
	if id == nil {
		return noneNode
	}
	return tree{"name": id.Name, "quoted": id.Quoted}
}

func projExpr(x parser.Expr) any {
	switch x := x.(type) {
	case nil:
		return noneNode
	case *parser.QualifiedIdent:
		if x == nil {
			return noneNode
		}
		parts := make([]any, len(x.Parts))
		for i, p := range x.Parts {
			parts[i] = projIdent(p)
		}
		return tree{"k": "QIdent", "parts": parts}
	case *parser.BasicLit:
		if x == nil {
			return noneNode
		}
		return tree{"k": "Lit", "kind": kindName(x.Kind), "value": x.Value}
	case *parser.UnaryExpr:
		if x == nil {
			return noneNode
		}
		return tree{"k": "Un", "op": kindName(x.Op), "x": projExpr(x.X)}
	case *parser.BinaryExpr:
		if x == nil {
			return noneNode
		}
		return tree{"k": "Bin", "op": kindName(x.Op), "x": projExpr(x.X), "y": projExpr(x.Y)}
	case *parser.InExpr:
		if x == nil {
			return noneNode
		}
		return tree{"k": "In", "x": projExpr(x.X), "vals": projExprs(x.Vals)}
	case *parser.ParenExpr:
		if x == nil {
			return noneNode
		}
		return tree{"k": "Paren", "x": projExpr(x.X)}
	case *parser.CallExpr:
		if x == nil {
			return noneNode
		}
		fn := ""
		if x.Func != nil {
			fn = x.Func.Name
		}
		return tree{"k": "Call", "fn": fn, "args": projExprs(x.Args)}
	case *parser.IndexExpr:
		if x == nil {
			return noneNode
		}
		return tree{"k": "Index", "x": projExpr(x.X), "index": projExpr(x.Index)}
	default:
		return tree{"k": fmt.Sprintf("unknown %T", x)}
	}
}

func projExprs(xs []parser.Expr) []any {
	out := make([]any, len(xs))
	for i, x := range xs {
		out[i] = projExpr(x)
	}
	return out
}

func projTerm(t *parser.SortTerm) any {
	if t == nil {
		return noneNode
	}
	return tree{"x": projExpr(t.X), "asc": t.Asc, "nullsFirst": t.NullsFirst,
		"ascGiven": t.AscDescSpan.IsValid(), "nullsGiven": t.NullsSpan.IsValid()}
}

func projTabular(t *parser.TabularExpr) any {
	if t == nil {
		return noneNode
	}
	var table any = noneNode
	if ref, ok := t.Source.(*parser.TableRef); ok && ref != nil {
		table = projIdent(ref.Table)
	}
	ops := make([]any, len(t.Operators))
	for i, op := range t.Operators {
		ops[i] = projOp(op)
	}
	return tree{"k": "Tabular", "table": table, "ops": ops}
}

func projOp(op parser.TabularOperator) any {
	switch op := op.(type) {
	case *parser.CountOperator:
		return tree{"k": "Count"}
	case *parser.WhereOperator:
		return tree{"k": "Where", "pred": projExpr(op.Predicate)}
	case *parser.SortOperator:
		ts := make([]any, len(op.Terms))
		for i, t := range op.Terms {
			ts[i] = projTerm(t)
		}
		return tree{"k": "Sort", "terms": ts}
	case *parser.TakeOperator:
		return tree{"k": "Take", "n": projExpr(op.RowCount)}
	case *parser.TopOperator:
		return tree{"k": "Top", "n": projExpr(op.RowCount), "col": projTerm(op.Col)}
	case *parser.ProjectOperator:
		cs := make([]any, len(op.Cols))
		for i, c := range op.Cols {
			cs[i] = tree{"name": projIdent(c.Name), "x": projExpr(c.X)}
		}
		return tree{"k": "Project", "cols": cs}
	case *parser.ExtendOperator:
		cs := make([]any, len(op.Cols))
		for i, c := range op.Cols {
			cs[i] = tree{"name": projIdent(c.Name), "x": projExpr(c.X)}
		}
		return tree{"k": "Extend", "cols": cs}
	case *parser.SummarizeOperator:
		cs := make([]any, len(op.Cols))
		for i, c := range op.Cols {
			cs[i] = tree{"name": projIdent(c.Name), "x": projExpr(c.X)}
		}
		gs := make([]any, len(op.GroupBy))
		for i, c := range op.GroupBy {
			gs[i] = tree{"name": projIdent(c.Name), "x": projExpr(c.X)}
		}
		return tree{"k": "Summarize", "cols": cs, "by": op.By.IsValid(), "groupBy": gs}
	case *parser.JoinOperator:
		return tree{"k": "Join", "flavor": projIdent(op.Flavor), "right": projTabular(op.Right), "conds": projExprs(op.Conditions)}
	case *parser.AsOperator:
		return tree{"k": "As", "name": projIdent(op.Name)}
	case *parser.RenderOperator:
		ps := make([]any, len(op.Props))
		for i, p := range op.Props {
			ps[i] = tree{"name": projIdent(p.Name), "value": projExpr(p.Value)}
		}
		return tree{"k": "Render", "chart": projIdent(op.ChartType), "with": op.With.IsValid(), "props": ps}
	default:
		return tree{"k": fmt.Sprintf("unknown %T", op)}
	}
}

func projStmt(s parser.Statement) any {
	switch s := s.(type) {
	case *parser.LetStatement:
		return tree{"k": "Let", "name": projIdent(s.Name), "x": projExpr(s.X)}
	case *parser.TabularExpr:
		return projTabular(s)
	default:
		return tree{"k": fmt.Sprintf("unknown %T", s)}
	}
}

func projStmts(ss []parser.Statement) []any {
	out := make([]any, len(ss))
	for i, s := range ss {
		out[i] = projStmt(s)
	}
	return out
}

// stripPrintFlags removes the print-only fields (tc, cby) of a model tree.
func stripPrintFlags(x any) any {
	switch x := x.(type) {
	case map[string]any:
		out := make(map[string]any, len(x))
		for k, v := range x {
			if k == "tc" || k == "cby" {
				continue
			}
			out[k] = stripPrintFlags(v)
		}
		return out
	case []any:
		out := make([]any, len(x))
		for i, v := range x {
			out[i] = stripPrintFlags(v)
		}
		return out
	default:
		return x
	}
}

// firstDiff describes the first difference between two generic trees.
func firstDiff(path string, a, b any) string {
	switch a := a.(type) {
	case map[string]any:
		bm, ok := b.(map[string]any)
		if !ok {
			return fmt.Sprintf("%s: %v vs %v", path, brief(a), brief(b))
		}
		for k, av := range a {
			bv, ok := bm[k]
			if !ok {
				return fmt.Sprintf("%s/%s: missing on the right", path, k)
			}
			if d := firstDiff(path+"/"+k, av, bv); d != "" {
				return d
			}
		}
		for k := range bm {
			if _, ok := a[k]; !ok {
				return fmt.Sprintf("%s/%s: missing on the left", path, k)
			}
		}
		return ""
	case []any:
		bs, ok := b.([]any)
		if !ok {
			return fmt.Sprintf("%s: %v vs %v", path, brief(a), brief(b))
		}
		if len(a) != len(bs) {
			return fmt.Sprintf("%s: %d vs %d elements", path, len(a), len(bs))
		}
		for i := range a {
			if d := firstDiff(path+"/"+strconv.Itoa(i), a[i], bs[i]); d != "" {
				return d
			}
		}
		return ""
	default:
		if !reflect.DeepEqual(a, b) {
			return fmt.Sprintf("%s: %v vs %v", path, brief(a), brief(b))
		}
		return ""
	}
}

func brief(x any) string {
	s := fmt.Sprintf("%v", x)
	if len(s) > 80 {
		s = s[:80] + "..."
	}
	return s
}

// ---------------------------------------------------------------------------
// node enumeration with paths

type nodeInfo struct {
	Path   string
	Node   parser.Node
	Type   string
	Parent int // index in the list, -1 for roots
	// Required: an identifier or expression node that Walk must visit (C11)
	Required bool
	// Parts: role -> recorded span, for the span fields of the node
	Parts map[string]parser.Span
}

type nodeLister struct {
	nodes []nodeInfo
}

func (nl *nodeLister) add(path string, n parser.Node, parent int, required bool, parts map[string]parser.Span) int {
	nl.nodes = append(nl.nodes, nodeInfo{Path: path, Node: n, Type: strings.TrimPrefix(fmt.Sprintf("%T", n), "*parser."),
		Parent: parent, Required: required, Parts: parts})
	return len(nl.nodes) - 1
}

func (nl *nodeLister) ident(path string, id *parser.Ident, parent int, required bool) {
	if id == nil {
		return
	}
	nl.add(path, id, parent, required, map[string]parser.Span{"name": id.NameSpan})
}

func (nl *nodeLister) expr(path string, x parser.Expr, parent int) {
	switch x := x.(type) {
	case nil:
	case *parser.QualifiedIdent:
		if x == nil {
			return
		}
		me := nl.add(path, x, parent, true, nil)
		for i, p := range x.Parts {
			nl.ident(fmt.Sprintf("%s/parts/%d", path, i), p, me, true)
		}
	case *parser.BasicLit:
		if x == nil {
			return
		}
		nl.add(path, x, parent, true, map[string]parser.Span{"value": x.ValueSpan})
	case *parser.UnaryExpr:
		if x == nil {
			return
		}
		me := nl.add(path, x, parent, true, map[string]parser.Span{"op": x.OpSpan})
		nl.expr(path+"/x", x.X, me)
	case *parser.BinaryExpr:
		if x == nil {
			return
		}
		me := nl.add(path, x, parent, true, map[string]parser.Span{"op": x.OpSpan})
		nl.expr(path+"/x", x.X, me)
		nl.expr(path+"/y", x.Y, me)
	case *parser.InExpr:
		if x == nil {
			return
		}
		me := nl.add(path, x, parent, true, map[string]parser.Span{"in": x.In, "lparen": x.Lparen, "rparen": x.Rparen})
		nl.expr(path+"/x", x.X, me)
		for i, v := range x.Vals {
			nl.expr(fmt.Sprintf("%s/vals/%d", path, i), v, me)
		}
	case *parser.ParenExpr:
		if x == nil {
			return
		}
		me := nl.add(path, x, parent, true, map[string]parser.Span{"lparen": x.Lparen, "rparen": x.Rparen})
		nl.expr(path+"/x", x.X, me)
	case *parser.CallExpr:
		if x == nil {
			return
		}
		parts := map[string]parser.Span{"lparen": x.Lparen, "crparen": x.Rparen}
		if x.Func != nil {
			parts["fn"] = x.Func.NameSpan
		}
		me := nl.add(path, x, parent, true, parts)
		for i, v := range x.Args {
			nl.expr(fmt.Sprintf("%s/args/%d", path, i), v, me)
		}
	case *parser.IndexExpr:
		if x == nil {
			return
		}
		me := nl.add(path, x, parent, true, map[string]parser.Span{"lbrack": x.Lbrack, "rbrack": x.Rbrack})
		nl.expr(path+"/x", x.X, me)
		nl.expr(path+"/index", x.Index, me)
	}
}

func (nl *nodeLister) term(path string, t *parser.SortTerm, parent int) {
	if t == nil {
		return
	}
	me := nl.add(path, t, parent, false, map[string]parser.Span{"ascdesc": t.AscDescSpan, "nulls": t.NullsSpan})
	nl.expr(path+"/x", t.X, me)
}

func (nl *nodeLister) tabular(path string, t *parser.TabularExpr, parent int) {
	if t == nil {
		return
	}
	me := nl.add(path, t, parent, false, nil)
	if ref, ok := t.Source.(*parser.TableRef); ok && ref != nil {
		src := nl.add(path+"/source", ref, me, false, nil)
		nl.ident(path+"/source/table", ref.Table, src, true)
	}
	for i, op := range t.Operators {
		nl.op(fmt.Sprintf("%s/ops/%d", path, i), op, me)
	}
}

func (nl *nodeLister) op(path string, op parser.TabularOperator, parent int) {
	switch op := op.(type) {
	case *parser.CountOperator:
		nl.add(path, op, parent, false, map[string]parser.Span{"pipe": op.Pipe, "kw": op.Keyword})
	case *parser.WhereOperator:
		me := nl.add(path, op, parent, false, map[string]parser.Span{"pipe": op.Pipe, "kw": op.Keyword})
		nl.expr(path+"/pred", op.Predicate, me)
	case *parser.SortOperator:
		me := nl.add(path, op, parent, false, map[string]parser.Span{"pipe": op.Pipe, "kw": op.Keyword})
		for i, t := range op.Terms {
			nl.term(fmt.Sprintf("%s/terms/%d", path, i), t, me)
		}
	case *parser.TakeOperator:
		me := nl.add(path, op, parent, false, map[string]parser.Span{"pipe": op.Pipe, "kw": op.Keyword})
		nl.expr(path+"/n", op.RowCount, me)
	case *parser.TopOperator:
		me := nl.add(path, op, parent, false, map[string]parser.Span{"pipe": op.Pipe, "kw": op.Keyword, "by": op.By})
		nl.expr(path+"/n", op.RowCount, me)
		nl.term(path+"/col", op.Col, me)
	case *parser.ProjectOperator:
		me := nl.add(path, op, parent, false, map[string]parser.Span{"pipe": op.Pipe, "kw": op.Keyword})
		for i, c := range op.Cols {
			cp := fmt.Sprintf("%s/cols/%d", path, i)
			cm := nl.add(cp, c, me, false, map[string]parser.Span{"assign": c.Assign})
			nl.ident(cp+"/name", c.Name, cm, true)
			nl.expr(cp+"/x", c.X, cm)
		}
	case *parser.ExtendOperator:
		me := nl.add(path, op, parent, false, map[string]parser.Span{"pipe": op.Pipe, "kw": op.Keyword})
		for i, c := range op.Cols {
			cp := fmt.Sprintf("%s/cols/%d", path, i)
			cm := nl.add(cp, c, me, false, map[string]parser.Span{"assign": c.Assign})
			nl.ident(cp+"/name", c.Name, cm, true)
			nl.expr(cp+"/x", c.X, cm)
		}
	case *parser.SummarizeOperator:
		me := nl.add(path, op, parent, false, map[string]parser.Span{"pipe": op.Pipe, "kw": op.Keyword, "sby": op.By})
		for i, c := range op.Cols {
			cp := fmt.Sprintf("%s/cols/%d", path, i)
			cm := nl.add(cp, c, me, false, map[string]parser.Span{"assign": c.Assign})
			nl.ident(cp+"/name", c.Name, cm, true)
			nl.expr(cp+"/x", c.X, cm)
		}
		for i, c := range op.GroupBy {
			cp := fmt.Sprintf("%s/groupBy/%d", path, i)
			cm := nl.add(cp, c, me, false, map[string]parser.Span{"assign": c.Assign})
			nl.ident(cp+"/name", c.Name, cm, true)
			nl.expr(cp+"/x", c.X, cm)
		}
	case *parser.JoinOperator:
		parts := map[string]parser.Span{"pipe": op.Pipe, "kw": op.Keyword, "kind": op.Kind, "kindassign": op.KindAssign,
			"lparen": op.Lparen, "rparen": op.Rparen, "on": op.On}
		me := nl.add(path, op, parent, false, parts)
		nl.ident(path+"/flavor", op.Flavor, me, false)
		nl.tabular(path+"/right", op.Right, me)
		for i, c := range op.Conditions {
			nl.expr(fmt.Sprintf("%s/conds/%d", path, i), c, me)
		}
	case *parser.AsOperator:
		me := nl.add(path, op, parent, false, map[string]parser.Span{"pipe": op.Pipe, "kw": op.Keyword})
		nl.ident(path+"/name", op.Name, me, true)
	case *parser.RenderOperator:
		me := nl.add(path, op, parent, false, map[string]parser.Span{"pipe": op.Pipe, "kw": op.Keyword, "with": op.With,
			"lparen": op.Lparen, "rparen": op.Rparen})
		nl.ident(path+"/chart", op.ChartType, me, true)
		for i, p := range op.Props {
			pp := fmt.Sprintf("%s/props/%d", path, i)
			pm := nl.add(pp, p, me, false, map[string]parser.Span{"assign": p.Assign})
			nl.ident(pp+"/name", p.Name, pm, true)
			nl.expr(pp+"/value", p.Value, pm)
		}
	}
}

func (nl *nodeLister) stmt(path string, s parser.Statement) {
	switch s := s.(type) {
	case *parser.LetStatement:
		me := nl.add(path, s, -1, false, map[string]parser.Span{"kw": s.Keyword, "assign": s.Assign})
		nl.ident(path+"/name", s.Name, me, true)
		nl.expr(path+"/x", s.X, me)
	case *parser.TabularExpr:
		nl.tabular(path, s, -1)
	}
}

func listNodes(stmts []parser.Statement) []nodeInfo {
	nl := &nodeLister{}
	for i, s := range stmts {
		nl.stmt(strconv.Itoa(i), s)
	}
	return nl.nodes
}
