package main

import (
	"math/rand"
	"unicode"
	"unicode/utf8"
)

// Concretisation of the class symbols of spec/Chars.tla, and its inverse.

var classReps = map[string][]string{
	"a": {"a"}, "b": {"b"}, "d": {"d"}, "i": {"i"}, "n": {"n"}, "o": {"o"}, "r": {"r"}, "y": {"y"}, "t": {"t"},
	"E":      {"e", "E"},
	"X":      {"x", "X"},
	"H":      {"c", "f", "A", "B", "C", "D", "F"},
	"L":      {"g", "h", "j", "k", "l", "m", "p", "q", "s", "u", "v", "w", "z", "G", "K", "N", "O", "R", "T", "Y", "Z", "I"},
	"0":      {"0"},
	"9":      {"1", "2", "3", "4", "5", "6", "7", "8", "9"},
	"US":     {"_"},
	"DOLLAR": {"$"},
	"WS":     {" ", "\t", "\r", "\f", "\v", "\u0085", "\u00a0", "\u2028", "\u3000", "\u2003"},
	"NL":     {"\n"},
	"DOT":    {"."}, "COMMA": {","}, "PIPE": {"|"}, "LP": {"("}, "RP": {")"}, "LB": {"["}, "RB": {"]"},
	"PLUS": {"+"}, "MINUS": {"-"}, "STAR": {"*"}, "SLASH": {"/"}, "PCT": {"%"}, "EQ": {"="}, "BANG": {"!"},
	"TILDE": {"~"}, "LT": {"<"}, "GT": {">"}, "SEMI": {";"}, "SQ": {"'"}, "DQ": {"\""}, "BT": {"`"}, "BS": {"\\"},
	"U":   {"\u00e9", "\u00fc", "\u03bb", "\u65e5", "\U0001F600", "\u200b", "\u00df"},
	"BAD": {"\xff", "\xfe", "\xc0", "\x80"},
	"O":   {"\x00", "#", "&", "@", "{", "}", "^", "?", ":", "\x01", "\x7f"},
}

// concretize maps a class string to bytes; offs[i] is the byte offset of
// character i (0-based), offs[len] the total length; chars[i] its bytes.
func concretize(src []string, rng *rand.Rand) (text string, offs []int, chars []string) {
	offs = make([]int, len(src)+1)
	chars = make([]string, len(src))
	buf := make([]byte, 0, len(src)*2)
	for i, c := range src {
		reps, ok := classReps[c]
		if !ok {
			fatal("unknown class symbol", c)
		}
		var r string
		if rng == nil {
			r = reps[0]
		} else {
			r = reps[rng.Intn(len(reps))]
		}
		offs[i] = len(buf)
		chars[i] = r
		buf = append(buf, r...)
	}
	offs[len(src)] = len(buf)
	return string(buf), offs, chars
}

func classOfRune(c rune, width int, valid bool) string {
	if !valid {
		return "BAD"
	}
	switch c {
	case 'a', 'b', 'd', 'i', 'n', 'o', 'r', 'y', 't':
		return string(c)
	case 'e', 'E':
		return "E"
	case 'x', 'X':
		return "X"
	case 'c', 'f', 'A', 'B', 'C', 'D', 'F':
		return "H"
	case '0':
		return "0"
	case '_':
		return "US"
	case '$':
		return "DOLLAR"
	case '\n':
		return "NL"
	case '.':
		return "DOT"
	case ',':
		return "COMMA"
	case '|':
		return "PIPE"
	case '(':
		return "LP"
	case ')':
		return "RP"
	case '[':
		return "LB"
	case ']':
		return "RB"
	case '+':
		return "PLUS"
	case '-':
		return "MINUS"
	case '*':
		return "STAR"
	case '/':
		return "SLASH"
	case '%':
		return "PCT"
	case '=':
		return "EQ"
	case '!':
		return "BANG"
	case '~':
		return "TILDE"
	case '<':
		return "LT"
	case '>':
		return "GT"
	case ';':
		return "SEMI"
	case '\'':
		return "SQ"
	case '"':
		return "DQ"
	case '`':
		return "BT"
	case '\\':
		return "BS"
	}
	switch {
	case '1' <= c && c <= '9':
		return "9"
	case 'a' <= c && c <= 'z' || 'A' <= c && c <= 'Z':
		return "L"
	case unicode.IsSpace(c):
		return "WS"
	case c < 0x80:
		return "O"
	default:
		return "U"
	}
}

// classify is the inverse of concretize for arbitrary bytes.
func classify(text string) (src []string, offs []int, chars []string) {
	for i := 0; i < len(text); {
		c, n := utf8.DecodeRuneInString(text[i:])
		valid := !(c == utf8.RuneError && n == 1)
		src = append(src, classOfRune(c, n, valid))
		offs = append(offs, i)
		chars = append(chars, text[i:i+n])
		i += n
	}
	offs = append(offs, len(text))
	return
}
