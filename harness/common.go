package main

import (
	"bufio"
	"encoding/base64"
	"encoding/json"
	"fmt"
	"math/rand"
	"os"
	"strconv"
	"strings"
)

// Violation is one observed behaviour of the real code that the
// specification's relation rejects.
type Violation struct {
	Property string `json:"property"`
	Kind     string `json:"kind"`
	InputB64 string `json:"input_b64"`
	Input    string `json:"input_text,omitempty"`
	Extra    any    `json:"extra,omitempty"`
	Observed any    `json:"observed,omitempty"`
	Expected any    `json:"expected,omitempty"`
	Reason   string `json:"reason"`
}

// Result is what every harness sub-command writes for the orchestrator.
type Result struct {
	Property    string         `json:"property"`
	Cases       int            `json:"cases"`
	Evaluations int            `json:"evaluations"`
	Nontrivial  int            `json:"distinct_nontrivial"`
	Checks      map[string]int `json:"checks"`
	Drift       int            `json:"conformance_drift"`
	DriftSample []any          `json:"drift_samples,omitempty"`
	Violations  []Violation    `json:"violations"`
	NViolations int            `json:"n_violations"`
	Samples     []any          `json:"samples"`
	Notes       []string       `json:"notes,omitempty"`
}

func newResult(prop string) *Result {
	return &Result{Property: prop, Checks: map[string]int{}, Violations: []Violation{}, Samples: []any{}}
}

func (r *Result) violate(v Violation) {
	r.NViolations++
	if len(r.Violations) < 25 {
		if v.Input == "" {
			if b, err := base64.StdEncoding.DecodeString(v.InputB64); err == nil {
				v.Input = strconv.QuoteToASCII(string(b))
			}
		}
		r.Violations = append(r.Violations, v)
	}
}

func (r *Result) sample(x any) {
	if len(r.Samples) < 8 {
		r.Samples = append(r.Samples, x)
	}
}

func (r *Result) write(path string) {
	b, err := json.MarshalIndent(r, "", " ")
	if err != nil {
		fatal(err)
	}
	if err := os.WriteFile(path, b, 0o666); err != nil {
		fatal(err)
	}
}

func fatal(args ...any) {
	fmt.Fprintln(os.Stderr, append([]any{"harness:"}, args...)...)
	os.Exit(2)
}

func b64(s string) string { return base64.StdEncoding.EncodeToString([]byte(s)) }

// forEachTagged calls f with the JSON payload of every line of the TLC output
// file that carries the given tag.  TLC prints PrintT values as TLA+ strings:
// "TAG {...}" with the quotes and backslash escapes.
func forEachTagged(path, tag string, f func(payload []byte)) int {
	if path == "" {
		return 0 // an empty list of files (nothing was recorded, e.g. the run was aborted at a hang)
	}
	fh, err := os.Open(path)
	if err != nil {
		fatal(err)
	}
	defer fh.Close()
	sc := bufio.NewScanner(fh)
	sc.Buffer(make([]byte, 1<<20), 1<<28)
	n := 0
	prefixQ := `"` + tag + ` `
	prefix := tag + ` `
	for sc.Scan() {
		line := sc.Text()
		switch {
		case strings.HasPrefix(line, prefixQ):
			u, err := strconv.Unquote(line)
			if err != nil {
				// TLC does not escape everything the Go way; fall back.
				u = strings.ReplaceAll(strings.ReplaceAll(line[1:len(line)-1], `\"`, `"`), `\\`, `\`)
			}
			f([]byte(u[len(prefix):]))
			n++
		case strings.HasPrefix(line, prefix):
			f([]byte(line[len(prefix):]))
			n++
		}
	}
	if err := sc.Err(); err != nil {
		fatal(err)
	}
	return n
}

func newRand(seed int64, salt string) *rand.Rand {
	h := int64(1469598103934665603)
	for _, c := range []byte(salt) {
		h ^= int64(c)
		h *= 1099511628211
	}
	return rand.New(rand.NewSource(seed*1000003 + h))
}

// argument helpers -----------------------------------------------------------

type args map[string]string

func parseArgs(a []string) args {
	m := args{}
	for i := 0; i < len(a); i++ {
		if strings.HasPrefix(a[i], "--") {
			k := a[i][2:]
			if eq := strings.IndexByte(k, '='); eq >= 0 {
				m[k[:eq]] = k[eq+1:]
			} else if i+1 < len(a) && !strings.HasPrefix(a[i+1], "--") {
				m[k] = a[i+1]
				i++
			} else {
				m[k] = "true"
			}
		}
	}
	return m
}

func (a args) str(k, def string) string {
	if v, ok := a[k]; ok {
		return v
	}
	return def
}

func (a args) int(k string, def int) int {
	if v, ok := a[k]; ok {
		n, err := strconv.Atoi(v)
		if err != nil {
			fatal("bad --"+k, v)
		}
		return n
	}
	return def
}

func base64Decode(s string) (string, error) {
	b, err := base64.StdEncoding.DecodeString(s)
	return string(b), err
}
