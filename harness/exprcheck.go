package main

import (
	"encoding/json"
	"fmt"
	"os"
	"strings"

	"github.com/runreveal/pql"
)

// C01 / C06: compile generated programs for real, lex the emitted SQL and
// write one trace record per compilation for TLC (ExprCheck / ScopeCheck).

type exprCase struct {
	Fam  string `json:"fam"`
	Ch   any    `json:"ch"`
	Toks []gTok `json:"toks"`
	XC   string `json:"xc"`
	Ex   struct {
		Pos string `json:"pos"`
		E   any    `json:"e"`
	} `json:"ex"`
	// scope cases (C06)
	Sc struct {
		Params []struct {
			N string `json:"n"`
			S string `json:"s"`
		} `json:"params"`
		Lets []any `json:"lets"`
	} `json:"sc"`
	Alt []gTok `json:"alt"`
}

func sqlTokensJSON(toks []sTok) []map[string]string {
	out := make([]map[string]string, len(toks))
	for i, t := range toks {
		out[i] = map[string]string{"k": t.K, "v": t.V}
	}
	return out
}

// lexableSQL reports a problem with the token stream of emitted SQL that needs
// no oracle: comments, unlexable pieces.
func lexableSQL(toks []sTok) string {
	for _, t := range toks {
		switch t.K {
		case "cmt":
			return fmt.Sprintf("the output contains a comment %q", t.V)
		case "bad":
			return fmt.Sprintf("the output contains an unlexable piece %q", t.V)
		}
	}
	return ""
}

func cmdExprReplay(a args) {
	prop := a.str("property", "C01")
	res := newResult(prop)
	out := a.str("out", "result.json")
	startWatchdog(res, out)
	tf, err := os.Create(a.str("trace", "expr.ndjson"))
	if err != nil {
		fatal(err)
	}
	defer tf.Close()
	sf, err := os.Create(a.str("trace", "expr.ndjson") + ".side")
	if err != nil {
		fatal(err)
	}
	defer sf.Close()
	te, se := json.NewEncoder(tf), json.NewEncoder(sf)
	rng := newRand(int64(a.int("seed", 1)), "expr-replay")
	layouts := a.int("layouts", 2)
	id := 0
	seen := map[string]bool{}
	for _, f := range strings.Split(a.str("cases", ""), ",") {
		if f == "" {
			continue
		}
		forEachTagged(f, "CASE", func(p []byte) {
			var c exprCase
			if err := json.Unmarshal(p, &c); err != nil {
				fatal("bad case", err)
			}
			if c.Ex.Pos == "" || c.Ex.Pos == "renderVal" {
				return // render property values are not compiled as expressions (C04 covers them)
			}
			res.Cases++
			res.Nontrivial++
			var params map[string]string
			scParams := []any{}
			for _, pr := range c.Sc.Params {
				if params == nil {
					params = map[string]string{}
				}
				params[pr.N] = pr.S
				scParams = append(scParams, map[string]any{"n": pr.N, "toks": sqlTokensJSON(lexSQL(pr.S, "std"))})
			}
			lets := c.Sc.Lets
			if lets == nil {
				lets = []any{}
			}
			sc := map[string]any{"params": scParams, "lets": lets}
			var firstSQL string
			for layout := 0; layout < layouts; layout++ {
				lay := layout
				if layout == 1 {
					lay = 2
				}
				text, _ := renderTokens(c.Toks, lay, newRand(int64(rng.Intn(1<<30)), "l"))
				if seen[text] {
					continue
				}
				seen[text] = true
				res.Evaluations++
				var sql string
				var cerr error
				var opts *pql.CompileOptions
				if params != nil {
					opts = &pql.CompileOptions{Parameters: params}
				}
				if p, st := guarded(text, "Compile", func() { sql, cerr = opts.Compile(text) }); p != nil {
					res.violate(Violation{Property: prop, Kind: "panic", InputB64: b64(text),
						Reason: fmt.Sprintf("Compile panicked: %v", p), Extra: map[string]any{"stack": st[:min(len(st), 1200)]}})
					continue
				}
				extra := map[string]any{"family": c.Fam, "choice": c.Ch, "pos": c.Ex.Pos, "params": params}
				if cerr != nil {
					if c.XC == "ok" {
						res.violate(Violation{Property: prop, Kind: "valid_expression_not_compiled", InputB64: b64(text), Extra: extra,
							Observed: cerr.Error(), Reason: "an expression of the grammar failed to compile: " + firstLine(cerr.Error())})
					}
					continue
				}
				if layout == 0 {
					firstSQL = sql
				} else if firstSQL != "" && sql != firstSQL && !strings.Contains(text, "extend") && !strings.Contains(text, "summarize") {
					// layout must not influence the output (implicit column names excepted: they quote the source text)
					res.violate(Violation{Property: prop, Kind: "layout_changes_output", InputB64: b64(text), Extra: extra,
						Observed: sql, Expected: firstSQL, Reason: "the same tokens in another layout compile to different SQL"})
				}
				stoks := lexSQL(sql, "std")
				res.Checks["sql_lexable"]++
				if msg := lexableSQL(stoks); msg != "" {
					res.violate(Violation{Property: prop, Kind: "output_not_lexable", InputB64: b64(text), Extra: extra,
						Observed: sql, Reason: msg})
					continue
				}
				if layout > 0 && sql == firstSQL {
					continue // same SQL as layout 0: one trace record is enough
				}
				id++
				rec := map[string]any{"id": id, "pos": c.Ex.Pos, "e": withPrintFlags(c.Ex.E), "sql": sqlTokensJSON(stoks), "sc": sc}
				if layout == 0 && len(c.Alt) > 0 {
					// bindings that are unused or written after the query do not change the output
					altText, _ := renderTokens(c.Alt, 0, nil)
					var altSQL string
					var altErr error
					guarded(altText, "Compile", func() { altSQL, altErr = opts.Compile(altText) })
					res.Checks["irrelevant_bindings"]++
					if altErr != nil || altSQL != sql {
						res.violate(Violation{Property: prop, Kind: "irrelevant_binding_changes_output", InputB64: b64(text), Extra: extra,
							Observed: sql, Expected: map[string]any{"without_them": altText, "sql": altSQL, "err": fmt.Sprint(altErr)},
							Reason: "a let that is unused or written after the query changes the output"})
					}
				}
				te.Encode(rec)
				se.Encode(map[string]any{"id": id, "b64": b64(text), "sql": sql, "extra": extra})
				if id%997 == 1 {
					res.sample(map[string]any{"pql": text, "sql": sql, "pos": c.Ex.Pos})
				}
			}
			if len(seen) > 300000 {
				seen = map[string]bool{}
			}
		})
	}
	res.Checks["trace_records"] = id
	res.write(out)
}

// cmdExprTraceCheck: TLC's verdicts on the recorded compilations.
func cmdExprTraceCheck(a args) {
	prop := a.str("property", "C01")
	res := newResult(prop)
	type sideRec struct {
		ID    int            `json:"id"`
		B64   string         `json:"b64"`
		SQL   string         `json:"sql"`
		Extra map[string]any `json:"extra"`
	}
	side := map[int]sideRec{}
	b, err := os.ReadFile(a.str("side", ""))
	if err != nil {
		fatal(err)
	}
	for _, line := range strings.Split(string(b), "\n") {
		if line == "" {
			continue
		}
		var r sideRec
		if err := json.Unmarshal([]byte(line), &r); err != nil {
			fatal(err)
		}
		side[r.ID] = r
	}
	n := 0
	for _, vf := range strings.Split(a.str("verdicts", ""), ",") {
		n += forEachTagged(vf, "TV", func(p []byte) {
			var v struct {
				ID    int    `json:"id"`
				OK    bool   `json:"ok"`
				Why   string `json:"why"`
				Row   any    `json:"row"`
				Table string `json:"table"`
			}
			if err := json.Unmarshal(p, &v); err != nil {
				fatal("bad verdict", err)
			}
			r, ok := side[v.ID]
			if !ok {
				fatal("verdict for unknown id", v.ID)
			}
			res.Cases++
			res.Evaluations++
			res.Nontrivial++
			res.Checks["compilations_validated_by_TLC"]++
			if !v.OK {
				r.Extra["distinguishing_row"] = v.Row
				r.Extra["precedence_table"] = v.Table
				res.violate(Violation{Property: prop, Kind: "meaning_differs", InputB64: r.B64, Extra: r.Extra,
					Observed: r.SQL, Reason: "TLC rejects the compilation: " + v.Why + " (precedence table " + v.Table + ")"})
			}
		})
	}
	if n != len(side) {
		fatal(fmt.Sprintf("TLC answered %d of %d trace records", n, len(side)))
	}
	res.write(a.str("out", "result.json"))
}
