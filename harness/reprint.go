package main

import (
	"fmt"
	"strconv"
)

// Go transcription of Toks / Align of spec/Grammar.tla, used as a pre-filter
// for C08 (TLC validates every flagged record and all accepted sources up to
// a cap).  It works on the projected tree (maps), not on the parser's types.

func rpIdent(id any, p string) []gTok {
	m, _ := id.(map[string]any)
	k := "Identifier"
	if q, _ := m["quoted"].(bool); q {
		k = "QuotedIdentifier"
	}
	name, _ := m["name"].(string)
	return []gTok{{K: k, V: name, P: p, R: "name"}}
}

func isNone(x any) bool {
	m, ok := x.(map[string]any)
	return !ok || m["k"] == "None"
}

func rpExprList(es any, p, f string) []gTok {
	var out []gTok
	list, _ := es.([]any)
	for i, e := range list {
		if i > 0 {
			out = append(out, gTok{K: "Comma", P: p, R: "comma"})
		}
		out = append(out, rpExpr(e, p+"/"+f+"/"+strconv.Itoa(i))...)
	}
	return out
}

func rpExpr(e any, p string) []gTok {
	m, _ := e.(map[string]any)
	switch m["k"] {
	case "QIdent":
		var out []gTok
		parts, _ := m["parts"].([]any)
		for i, part := range parts {
			if i > 0 {
				out = append(out, gTok{K: "Dot", P: p, R: "dot"})
			}
			out = append(out, rpIdent(part, fmt.Sprintf("%s/parts/%d", p, i))...)
		}
		return out
	case "Lit":
		kind, _ := m["kind"].(string)
		v, _ := m["value"].(string)
		return []gTok{{K: kind, V: v, P: p, R: "value"}}
	case "Un":
		op, _ := m["op"].(string)
		return append([]gTok{{K: op, P: p, R: "op"}}, rpExpr(m["x"], p+"/x")...)
	case "Bin":
		op, _ := m["op"].(string)
		out := rpExpr(m["x"], p+"/x")
		out = append(out, gTok{K: op, P: p, R: "op"})
		return append(out, rpExpr(m["y"], p+"/y")...)
	case "In":
		out := rpExpr(m["x"], p+"/x")
		out = append(out, gTok{K: "In", P: p, R: "in"}, gTok{K: "LParen", P: p, R: "lparen"})
		out = append(out, rpExprList(m["vals"], p, "vals")...)
		return append(out, gTok{K: "RParen", P: p, R: "rparen"})
	case "Paren":
		out := []gTok{{K: "LParen", P: p, R: "lparen"}}
		out = append(out, rpExpr(m["x"], p+"/x")...)
		return append(out, gTok{K: "RParen", P: p, R: "rparen"})
	case "Call":
		fn, _ := m["fn"].(string)
		out := []gTok{{K: "Identifier", V: fn, P: p, R: "fn"}, {K: "LParen", P: p, R: "lparen"}}
		out = append(out, rpExprList(m["args"], p, "args")...)
		return append(out, gTok{K: "RParen", P: p, R: "crparen"})
	case "Index":
		out := rpExpr(m["x"], p+"/x")
		out = append(out, gTok{K: "LBracket", P: p, R: "lbrack"})
		out = append(out, rpExpr(m["index"], p+"/index")...)
		return append(out, gTok{K: "RBracket", P: p, R: "rbrack"})
	}
	return []gTok{{K: "Malformed", P: p, R: "malformed"}}
}

func rpTerm(t any, p string) []gTok {
	m, _ := t.(map[string]any)
	out := rpExpr(m["x"], p+"/x")
	if g, _ := m["ascGiven"].(bool); g {
		w := "desc"
		if a, _ := m["asc"].(bool); a {
			w = "asc"
		}
		out = append(out, gTok{K: "Identifier", V: w, P: p, R: "ascdesc"})
	}
	if g, _ := m["nullsGiven"].(bool); g {
		w := "last"
		if a, _ := m["nullsFirst"].(bool); a {
			w = "first"
		}
		out = append(out, gTok{K: "Identifier", V: "nulls", P: p, R: "nulls"}, gTok{K: "Identifier", V: w, P: p, R: "nulls"})
	}
	return out
}

func rpCols(cs any, p, f string) []gTok {
	var out []gTok
	list, _ := cs.([]any)
	for i, c := range list {
		if i > 0 {
			out = append(out, gTok{K: "Comma", P: p, R: "comma"})
		}
		cp := p + "/" + f + "/" + strconv.Itoa(i)
		m, _ := c.(map[string]any)
		hasName, hasX := !isNone(m["name"]), !isNone(m["x"])
		if hasName {
			out = append(out, rpIdent(m["name"], cp+"/name")...)
		}
		if hasName && hasX {
			out = append(out, gTok{K: "Assign", P: cp, R: "assign"})
		}
		if hasX {
			out = append(out, rpExpr(m["x"], cp+"/x")...)
		}
	}
	return out
}

func rpOp(o any, p string) []gTok {
	m, _ := o.(map[string]any)
	out := []gTok{{K: "Pipe", P: p, R: "pipe"}}
	kw := func(v, r string) gTok { return gTok{K: "Identifier", V: v, P: p, R: r} }
	switch m["k"] {
	case "Count":
		out = append(out, kw("count", "kw"))
	case "Where":
		out = append(out, kw("where", "kw"))
		out = append(out, rpExpr(m["pred"], p+"/pred")...)
	case "Sort":
		out = append(out, kw("sort", "kw"), gTok{K: "By", P: p, R: "kw"})
		ts, _ := m["terms"].([]any)
		for i, t := range ts {
			if i > 0 {
				out = append(out, gTok{K: "Comma", P: p, R: "comma"})
			}
			out = append(out, rpTerm(t, fmt.Sprintf("%s/terms/%d", p, i))...)
		}
	case "Take":
		out = append(out, kw("take", "kw"))
		out = append(out, rpExpr(m["n"], p+"/n")...)
	case "Top":
		out = append(out, kw("top", "kw"))
		out = append(out, rpExpr(m["n"], p+"/n")...)
		out = append(out, gTok{K: "By", P: p, R: "by"})
		out = append(out, rpTerm(m["col"], p+"/col")...)
	case "Project":
		out = append(out, kw("project", "kw"))
		out = append(out, rpCols(m["cols"], p, "cols")...)
	case "Extend":
		out = append(out, kw("extend", "kw"))
		out = append(out, rpCols(m["cols"], p, "cols")...)
	case "Summarize":
		out = append(out, kw("summarize", "kw"))
		out = append(out, rpCols(m["cols"], p, "cols")...)
		if by, _ := m["by"].(bool); by {
			out = append(out, gTok{K: "By", P: p, R: "sby"})
			out = append(out, rpCols(m["groupBy"], p, "groupBy")...)
		}
	case "Join":
		out = append(out, kw("join", "kw"))
		if !isNone(m["flavor"]) {
			out = append(out, kw("kind", "kind"), gTok{K: "Assign", P: p, R: "kindassign"})
			out = append(out, rpIdent(m["flavor"], p+"/flavor")...)
		}
		out = append(out, gTok{K: "LParen", P: p, R: "lparen"})
		out = append(out, rpTab(m["right"], p+"/right")...)
		out = append(out, gTok{K: "RParen", P: p, R: "rparen"}, kw("on", "on"))
		out = append(out, rpExprList(m["conds"], p, "conds")...)
	case "As":
		out = append(out, kw("as", "kw"))
		out = append(out, rpIdent(m["name"], p+"/name")...)
	case "Render":
		out = append(out, kw("render", "kw"))
		out = append(out, rpIdent(m["chart"], p+"/chart")...)
		if w, _ := m["with"].(bool); w {
			out = append(out, kw("with", "with"), gTok{K: "LParen", P: p, R: "lparen"})
			ps, _ := m["props"].([]any)
			for i, pr := range ps {
				if i > 0 {
					out = append(out, gTok{K: "Comma", P: p, R: "comma"})
				}
				pp := fmt.Sprintf("%s/props/%d", p, i)
				pm, _ := pr.(map[string]any)
				out = append(out, rpIdent(pm["name"], pp+"/name")...)
				out = append(out, gTok{K: "Assign", P: pp, R: "assign"})
				out = append(out, rpExpr(pm["value"], pp+"/value")...)
			}
			out = append(out, gTok{K: "RParen", P: p, R: "rparen"})
		}
	default:
		out = append(out, gTok{K: "Malformed", P: p, R: "malformed"})
	}
	return out
}

func rpTab(t any, p string) []gTok {
	m, _ := t.(map[string]any)
	if m["k"] != "Tabular" {
		return []gTok{{K: "Malformed", P: p, R: "malformed"}}
	}
	out := rpIdent(m["table"], p+"/source/table")
	ops, _ := m["ops"].([]any)
	for i, o := range ops {
		out = append(out, rpOp(o, fmt.Sprintf("%s/ops/%d", p, i))...)
	}
	return out
}

func rpStmt(s any, p string) []gTok {
	m, _ := s.(map[string]any)
	switch m["k"] {
	case "Let":
		out := []gTok{{K: "Identifier", V: "let", P: p, R: "kw"}}
		out = append(out, rpIdent(m["name"], p+"/name")...)
		out = append(out, gTok{K: "Assign", P: p, R: "assign"})
		return append(out, rpExpr(m["x"], p+"/x")...)
	case "Tabular":
		return rpTab(s, p)
	}
	return []gTok{{K: "Malformed", P: p, R: "malformed"}}
}

var synonymOf = map[string]string{"filter": "where", "order": "sort", "limit": "take"}

func sameTok(r, m gTok, afterPipe bool) bool {
	if r.K != m.K {
		return false
	}
	if afterPipe && r.K == "Identifier" {
		if s, ok := synonymOf[r.V]; ok {
			return s == m.V
		}
	}
	return r.V == m.V
}

func alignToks(rs, ms []gTok) bool {
	afterPipe := false
	var prev gTok
	i := 0
	for _, m := range ms {
		if i >= len(rs) {
			return false
		}
		if sameTok(rs[i], m, afterPipe) {
			afterPipe = rs[i].K == "Pipe"
			prev = m
			i++
			continue
		}
		if rs[i].K == "Comma" && (m.R == "crparen" || m.R == "sby") &&
			!(prev.P == m.P && (prev.R == "lparen" || prev.R == "kw")) &&
			i+1 < len(rs) && sameTok(rs[i+1], m, false) {
			afterPipe = false
			prev = m
			i += 2
			continue
		}
		return false
	}
	return i == len(rs)
}

// accounts is Accounts of Grammar.tla: real significant tokens vs projected statements.
func accounts(real []gTok, stmts []any) bool {
	var groups [][]gTok
	cur := []gTok{}
	for _, t := range real {
		if t.K == "Semi" {
			groups = append(groups, cur)
			cur = []gTok{}
		} else {
			cur = append(cur, t)
		}
	}
	groups = append(groups, cur)
	var ne [][]gTok
	for _, g := range groups {
		if len(g) > 0 {
			ne = append(ne, g)
		}
	}
	if len(ne) != len(stmts) {
		return false
	}
	for i, g := range ne {
		if !alignToks(g, rpStmt(stmts[i], strconv.Itoa(i))) {
			return false
		}
	}
	return true
}

// withPrintFlags adds the print-only fields Toks expects (tc, cby) to a projected tree.
func withPrintFlags(x any) any {
	switch x := x.(type) {
	case map[string]any:
		out := make(map[string]any, len(x)+1)
		for k, v := range x {
			out[k] = withPrintFlags(v)
		}
		switch x["k"] {
		case "Call":
			out["tc"] = false
		case "Summarize":
			out["cby"] = false
		}
		return out
	case []any:
		out := make([]any, len(x))
		for i, v := range x {
			out[i] = withPrintFlags(v)
		}
		return out
	default:
		return x
	}
}
