package main

import (
	"encoding/json"
	"fmt"
	"math/big"
	"strings"

	"github.com/runreveal/pql"
)

// C04: literals and names are data.

type sqlLexCase struct {
	Content []string `json:"content"`
	Src     []string `json:"src"`
	Std     []mTok   `json:"std"`
	Ch      []mTok   `json:"ch"`
}

// classes whose representatives the harness's SQL lexer treats as in SqlLex.tla
var sqlClassReps = map[string][]string{
	"O":  {"\x00", "&", "^", "\x01", "\x7f"},
	"WS": {" ", "\t", "\r", "\f"},
}

func concretizeSQL(src []string, rng interface{ Intn(int) int }, variant int) (string, []int, []string) {
	offs := make([]int, len(src)+1)
	chars := make([]string, len(src))
	var sb strings.Builder
	for i, c := range src {
		reps, ok := sqlClassReps[c]
		if !ok {
			reps = classReps[c]
		}
		if reps == nil {
			fatal("unknown class", c)
		}
		r := reps[0]
		if variant > 0 {
			r = reps[rng.Intn(len(reps))]
		}
		offs[i] = sb.Len()
		chars[i] = r
		sb.WriteString(r)
	}
	offs[len(src)] = sb.Len()
	return sb.String(), offs, chars
}

func specKind(k string) string {
	switch k {
	case "kw", "id":
		return "word"
	}
	return k
}

func decodeAtoms(v []int, chars []string) string {
	var sb strings.Builder
	for _, a := range v {
		switch {
		case a >= 1:
			sb.WriteString(chars[a-1])
		case a == -1:
			sb.WriteByte('\n')
		case a == -2:
			sb.WriteByte('\t')
		case a == -3:
			sb.WriteByte(0)
		}
	}
	return sb.String()
}

// the positions at which a string literal / a name can occur
var stringTemplates = []string{
	"T | where a == %s",
	"T | project p = %s, q",
	"T | extend %s",
	"T | extend r = strcat(%s, %s)",
	"T | where f(1, %s)",
	"T | where m[%s] > 0",
	"T | where a in (%s, 'z')",
	"T | join (B) on $left.a == %s",
	"T | sort by %s asc",
	"T | summarize x = max(%s) by y = %s",
	"T | render bar with (title = %s)",
	"let v = %s; T | where a == v",
	"T | where iff(a, %s, 'no') =~ %s",
	"T | top 3 by %s",
	"T | where not(%s != a)",
}

var nameTemplates = []string{
	"%s | count",
	"T | where %s == 1",
	"T | where x.%s > %s.y",
	"T | project %s = a",
	"T | project %s",
	"T | extend %s = 1",
	"T | summarize %s = count() by %s",
	"T | as %s | count",
	"T | join (B) on %s",
	"T | join (%s) on k",
	"T | sort by %s",
	"T | render %s",
	"T | render bar with (%s = 1)",
	"T | render bar with (title = %s)",
	"T | where f(%s[%s])",
	"T | take 1 | as %s | where a | as q",
}

const marker = "xq7"

type skel struct {
	toks []sTok
	err  error
}

func compileSkel(src string, dialect string) skel {
	var sql string
	var err error
	if p, _ := guarded(src, "Compile", func() { sql, err = pql.Compile(src) }); p != nil {
		return skel{err: fmt.Errorf("panic: %v", p)}
	}
	if err != nil {
		return skel{err: err}
	}
	return skel{toks: lexSQL(sql, dialect)}
}

// compareSkeleton: same token kinds and values except where the baseline value
// contains the marker.  A token that contains the marker's PQL spelling (an
// implicit column name: the source text of its expression) must contain the
// content's PQL spelling instead; any other token must contain the content.
func compareSkeleton(base, test []sTok, plain, spelled, want string, esc func(string) string, structureOnly bool) string {
	if len(base) != len(test) {
		return fmt.Sprintf("the statement has %d tokens with the content and %d with a plain one", len(test), len(base))
	}
	// generated names (subqueries, aliases) may be chosen differently when the content happens to be such a name:
	// quoted names that differ are accepted when they are renamed consistently and one-to-one, and not to the content
	rename, taken := map[string]string{}, map[string]string{}
	for i := range base {
		if base[i].K != test[i].K {
			return fmt.Sprintf("token %d is %s %q with the content and %s %q with a plain one", i, test[i].K, test[i].V, base[i].K, base[i].V)
		}
		switch {
		case structureOnly && strings.Contains(base[i].V, marker):
			// standard rules: only the token structure is required to be independent of the content
		case strings.Contains(base[i].V, plain):
			if exp := strings.ReplaceAll(base[i].V, plain, esc(spelled)); test[i].V != exp {
				return fmt.Sprintf("token %d (%s, implicit name) decodes to %q, expected the source text %q", i, test[i].K, test[i].V, exp)
			}
		case strings.Contains(base[i].V, marker):
			if exp := strings.ReplaceAll(base[i].V, marker, want); test[i].V != exp {
				return fmt.Sprintf("token %d (%s) decodes to %q, expected %q", i, test[i].K, test[i].V, exp)
			}
		case base[i].K == "qid" && base[i].V != test[i].V:
			to, seen := rename[base[i].V]
			from, used := taken[test[i].V]
			if (seen && to != test[i].V) || (used && from != base[i].V) || test[i].V == want {
				return fmt.Sprintf("token %d (%s) changed from %q to %q", i, base[i].K, base[i].V, test[i].V)
			}
			rename[base[i].V], taken[test[i].V] = test[i].V, base[i].V
		default:
			if base[i].V != test[i].V {
				return fmt.Sprintf("token %d (%s) changed from %q to %q", i, base[i].K, base[i].V, test[i].V)
			}
			if base[i].K == "qid" {
				if to, seen := rename[base[i].V]; seen && to != test[i].V {
					return fmt.Sprintf("token %d (%s) %q is renamed elsewhere in the statement", i, base[i].K, base[i].V)
				}
				rename[base[i].V], taken[test[i].V] = test[i].V, base[i].V
			}
		}
	}
	return ""
}

func fill(tmpl, x string) string { return strings.ReplaceAll(tmpl, "%s", x) }

type c04checker struct {
	res  *Result
	base map[string]skel
}

func (cc *c04checker) baseline(tmpl, spelled, dialect string) skel {
	key := dialect + "|" + tmpl + "|" + spelled
	if s, ok := cc.base[key]; ok {
		return s
	}
	s := compileSkel(fill(tmpl, spelled), dialect)
	if s.err != nil {
		fatal("baseline program does not compile", fill(tmpl, spelled), s.err)
	}
	cc.base[key] = s
	return s
}

// checkContent places one content at every position.
func (cc *c04checker) checkContent(content string, templates []string, asName bool, extra any) {
	res := cc.res
	var spelled, plain string
	if asName {
		spelled, plain = quoteIdent(content), quoteIdent(marker)
	} else {
		q := byte('\'')
		if len(content)%2 == 1 {
			q = '"'
		}
		spelled, plain = quotePQLString(content, q), quotePQLString(marker, q)
	}
	for _, tmpl := range templates {
		src := fill(tmpl, spelled)
		for _, dialect := range []string{"ch", "std"} {
			base := cc.baseline(tmpl, plain, dialect)
			res.Evaluations++
			res.Checks["skeleton_"+dialect]++
			test := compileSkel(src, dialect)
			if test.err != nil {
				res.violate(Violation{Property: "C04", Kind: "content_changes_result", InputB64: b64(src), Extra: extra,
					Observed: test.err.Error(), Reason: "the program compiles with a plain literal/name but not with this content: " + firstLine(test.err.Error())})
				break
			}
			// under "std" the target dialect's backslash escape is read as two characters
			esc := func(x string) string { return x }
			if dialect == "std" {
				esc = func(x string) string { return strings.ReplaceAll(x, `\`, `\\`) }
			}
			want := esc(content)
			if msg := compareSkeleton(base.toks, test.toks, plain, spelled, want, esc, dialect == "std"); msg != "" {
				sql, _ := pql.Compile(src)
				res.violate(Violation{Property: "C04", Kind: "content_is_syntax", InputB64: b64(src),
					Extra:    map[string]any{"dialect": dialect, "template": tmpl, "content": content, "content_b64": b64(content), "as_name": asName, "case": extra},
					Observed: sql, Reason: "under the " + dialect + " lexical rules " + msg})
				break
			}
		}
	}
}

func cmdC04Replay(a args) {
	res := newResult("C04")
	out := a.str("out", "result.json")
	startWatchdog(res, out)
	rng := newRand(int64(a.int("seed", 1)), "c04")
	cc := &c04checker{res: res, base: map[string]skel{}}
	reps := a.int("reps", 2)
	n := forEachTagged(a.str("cases", ""), "CASE", func(p []byte) {
		var c sqlLexCase
		if err := json.Unmarshal(p, &c); err != nil {
			fatal("bad case", err)
		}
		res.Cases++
		if len(c.Content) > 0 {
			res.Nontrivial++
		}
		for variant := 0; variant < reps; variant++ {
			// (a) the harness's SQL lexer conforms to SqlLex.tla on this text
			text, offs, chars := concretizeSQL(c.Src, rng, variant)
			for _, d := range []struct {
				name string
				toks []mTok
			}{{"std", c.Std}, {"ch", c.Ch}} {
				got := lexSQL(text, d.name)
				res.Checks["sql_lexer_conformance"]++
				bad := len(got) != len(d.toks)
				for i := 0; !bad && i < len(got); i++ {
					e := d.toks[i]
					if specKind(got[i].K) != e.K || got[i].S != offs[e.S] || got[i].E != offs[e.E] {
						bad = true
					} else if e.K == "str" || e.K == "qid" {
						bad = got[i].V != decodeAtoms(e.V, chars)
					}
				}
				if bad {
					fatal(fmt.Sprintf("harness SQL lexer disagrees with SqlLex.tla (%s) on %q: %v vs %v", d.name, text, got, d.toks))
				}
			}
			// (b) the content at every literal and name position of real programs
			content, _, _ := concretizeSQL(c.Content, rng, variant)
			if res.Cases%997 == 1 && variant == 0 {
				res.sample(map[string]any{"content": content, "pql_string": quotePQLString(content, '\''), "pql_name": quoteIdent(content)})
			}
			cc.checkContent(content, stringTemplates, false, c.Content)
			if content != "" && !strings.ContainsAny(content, "\n") {
				cc.checkContent(content, nameTemplates, true, c.Content)
			}
		}
	})
	if n == 0 {
		fatal("no cases")
	}
	// random longer contents
	for i := 0; i < a.int("random", 0); i++ {
		var sb strings.Builder
		m := 1 + rng.Intn(40)
		for j := 0; j < m; j++ {
			switch rng.Intn(4) {
			case 0:
				sb.WriteByte(byte(rng.Intn(256)))
			default:
				sb.WriteString([]string{"'", "\"", "`", "\\", "--", "/*", "*/", ";", "\x00", "\n", "\t", "é", "\xff", ")", ",", " ", "x", "0", "n", "''", "\\'", "\\\\", "$left", "{a:b}", "#! "}[rng.Intn(25)])
			}
		}
		content := sb.String()
		res.Cases++
		res.Nontrivial++
		cc.checkContent(content, stringTemplates, false, "random")
		if !strings.Contains(content, "\n") {
			cc.checkContent(content, nameTemplates, true, "random")
		}
	}
	// numbers: every spelling denotes the same value in SQL
	for _, f := range strings.Split(a.str("numbers", ""), ",") {
		if f == "" {
			continue
		}
		seen := map[string]bool{}
		forEachTagged(f, "CASE", func(p []byte) {
			var c lexCase
			if err := json.Unmarshal(p, &c); err != nil {
				fatal(err)
			}
			if len(c.Toks) != 1 || c.Toks[0].K != "Number" || c.Toks[0].S != 0 || c.Toks[0].E != len(c.Src) {
				return
			}
			for variant := 0; variant < 3; variant++ {
				lexeme, _, _ := concretizeSQL(c.Src, rng, variant)
				if seen[lexeme] {
					continue
				}
				seen[lexeme] = true
				checkNumber(res, lexeme)
			}
		})
	}
	for _, lx := range []string{"0", "007", "0x10", "0XfF", "1.", ".5", "0.50", "1e3", "1E+3", "1e-3", "12345678901234567890", "0xFFFFFFFFFFFFFFFF", "00.0e0",
		// the edges of 63 / 64 bits and beyond, in every base and with leading zeros (an implementation may reject
		// what it cannot represent, but must not emit another value)
		"9223372036854775807", "9223372036854775808", "18446744073709551615", "18446744073709551616", "18446744073709551617",
		"36893488147419103232", "1000000000000000000000000000000", "000018446744073709551616",
		"0x7fffffffffffffff", "0x8000000000000000", "0x10000000000000000", "0x10000000000000001", "0x1ffffffffffffffff",
		"0XFFFFFFFFFFFFFFFFFF", "0x00000000000000000000001", "0x0000000000000000ffffffffffffffff",
		"0.1234567890123456789012345678901234567890", "123456789012345678901234567890.5", "1e19", "1e20", "1.8446744073709551616e19",
		"4e-400", "1e308", "1e309", "9007199254740993", "9007199254740993.0"} {
		checkNumber(res, lx)
	}
	res.write(out)
}

func checkNumber(res *Result, lexeme string) {
	src := "T | where a == " + lexeme + " | take " + lexeme
	sql, err := pql.Compile(src)
	res.Checks["numbers"]++
	res.Evaluations++
	if err != nil {
		if strings.Contains(err.Error(), "expected integer") {
			sql, err = pql.Compile("T | where a == " + lexeme)
		}
		if err != nil {
			return
		}
	}
	var want *big.Rat
	if len(lexeme) > 1 && (lexeme[1] == 'x' || lexeme[1] == 'X') {
		n, ok := new(big.Int).SetString(lexeme[2:], 16)
		if !ok {
			return
		}
		want = new(big.Rat).SetInt(n)
	} else {
		r, ok := ratOfDecimal(lexeme)
		if !ok {
			return
		}
		want = r
	}
	found := 0
	for _, d := range []string{"std", "ch"} {
		for _, t := range lexSQL(sql, d) {
			if t.K == "bad" || t.K == "cmt" {
				res.violate(Violation{Property: "C04", Kind: "number_is_syntax", InputB64: b64(src), Observed: sql,
					Reason: "the number literal does not come out as a number token"})
				return
			}
			if t.K == "num" {
				found++
				got, ok := ratOfDecimal(t.V)
				if !ok || (got != errHugeExponent && want != errHugeExponent && got.Cmp(want) != 0) {
					res.violate(Violation{Property: "C04", Kind: "number_value", InputB64: b64(src), Observed: sql,
						Reason: fmt.Sprintf("the SQL number %q does not denote the value of %q", t.V, lexeme)})
					return
				}
			}
		}
	}
	if found == 0 {
		res.violate(Violation{Property: "C04", Kind: "number_is_syntax", InputB64: b64(src), Observed: sql, Reason: "no number token in the output"})
	}
}
