package main

import (
	"math/rand"
	"strings"
)

// gTok is a token of a generated program: kind, value, owner path, role.
type gTok struct {
	K string `json:"k"`
	V string `json:"v"`
	P string `json:"p"`
	R string `json:"r"`
}

var opSymbols = map[string]string{
	"And": "and", "Or": "or", "In": "in", "By": "by",
	"Pipe": "|", "Dot": ".", "Comma": ",", "Plus": "+", "Minus": "-", "Star": "*", "Slash": "/", "Mod": "%",
	"Assign": "=", "Eq": "==", "NE": "!=", "LT": "<", "LE": "<=", "GT": ">", "GE": ">=",
	"CaseInsensitiveEq": "=~", "CaseInsensitiveNE": "!~", "LParen": "(", "RParen": ")",
	"LBracket": "[", "RBracket": "]", "Semi": ";",
}

var synonyms = map[string]string{"where": "filter", "sort": "order", "take": "limit"}

func quoteIdent(v string) string { return "`" + strings.ReplaceAll(v, "`", "``") + "`" }

func quotePQLString(v string, q byte) string {
	var sb strings.Builder
	sb.WriteByte(q)
	for i := 0; i < len(v); i++ {
		c := v[i]
		switch {
		case c == '\\':
			sb.WriteString(`\\`)
		case c == q:
			sb.WriteByte('\\')
			sb.WriteByte(q)
		case c == '\n':
			sb.WriteString(`\n`)
		case c == '\t':
			sb.WriteString(`\t`)
		default:
			sb.WriteByte(c)
		}
	}
	sb.WriteByte(q)
	return sb.String()
}

// lexeme spells one token.  style selects string quote and keyword synonyms.
func lexeme(t gTok, afterPipe bool, rng *rand.Rand) string {
	switch t.K {
	case "Identifier":
		if afterPipe && rng != nil && rng.Intn(2) == 0 {
			if s, ok := synonyms[t.V]; ok {
				return s
			}
		}
		return t.V
	case "QuotedIdentifier":
		return quoteIdent(t.V)
	case "Number":
		return t.V
	case "String":
		q := byte('\'')
		if rng != nil && rng.Intn(2) == 0 {
			q = '"'
		}
		return quotePQLString(t.V, q)
	case "Raw":
		return t.V
	}
	if s, ok := opSymbols[t.K]; ok {
		return s
	}
	fatal("cannot spell token kind", t.K)
	return ""
}

func isPunct(c byte) bool { return strings.IndexByte("()[],|;", c) >= 0 }

var separators = []string{" ", " ", "\n", "\t", "  ", " // note\n", "\r\n", "\n\n", " //\n\t", "  "}

// renderTokens writes the tokens as source text.  layout 0: single spaces;
// 1: no separator wherever two tokens cannot fuse; >= 2: random separators,
// keyword synonyms, quote styles, leading / trailing blank space and comments.
// It returns the text and the byte extent of every token.
func renderTokens(toks []gTok, layout int, rng *rand.Rand) (string, [][2]int) {
	var sb strings.Builder
	ext := make([][2]int, len(toks))
	var r *rand.Rand
	var lastByte byte
	if layout >= 2 {
		r = rng
		if r.Intn(3) == 0 {
			sb.WriteString([]string{" ", "\n", "// head\n", "\t"}[r.Intn(4)])
		}
	}
	for i, t := range toks {
		afterPipe := i > 0 && toks[i-1].K == "Pipe"
		lx := lexeme(t, afterPipe, r)
		if i > 0 {
			canFuse := isPunct(lastByte) || isPunct(lx[0])
			switch {
			case layout == 0:
				sb.WriteByte(' ')
			case layout == 1:
				if !canFuse {
					sb.WriteByte(' ')
				}
			default:
				if canFuse && r.Intn(3) == 0 {
					// nothing
				} else {
					sb.WriteString(separators[r.Intn(len(separators))])
				}
			}
		}
		ext[i][0] = sb.Len()
		sb.WriteString(lx)
		ext[i][1] = sb.Len()
		lastByte = lx[len(lx)-1]
	}
	if layout >= 2 {
		switch r.Intn(4) {
		case 0:
			sb.WriteString("\n")
		case 1:
			sb.WriteString(" // tail")
		case 2:
			sb.WriteString(" \t\n")
		}
	}
	return sb.String(), ext
}
