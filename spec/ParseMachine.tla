---------------------------- MODULE ParseMachine ----------------------------
(***************************************************************************)
(* The recursive-descent parser of parser/parser.go, transcribed           *)
(* production by production: the token cursor with its end-of-input latch  *)
(* (next / prev), sub-parsers over bracket-balanced token ranges (split,   *)
(* splitSemi, endSplit), the distinction between "nothing here"            *)
(* (notFoundError) and hard errors (makeErrorOpaque), back-tracking in     *)
(* extend / summarize columns and expression lists, precedence climbing.   *)
(*                                                                         *)
(* A parser is p = [lo, hi, pos]: the token range it may read and its      *)
(* cursor (1-based; pos = hi + 2 is the latch after end of input was       *)
(* reported).  Every production returns [v, p, e]: tree (or None), the     *)
(* parser afterwards, and the error e = [any, nf]: whether there is an     *)
(* error and whether errors.As would find a notFoundError in it.           *)
(*                                                                         *)
(* Design-level theorems checked by TLC (module ParseCheck):               *)
(*   C07  ParseProgram(tokens of a generated program) = its tree           *)
(*   C08  ParseProgram(any corrupted token sequence) succeeds only if the  *)
(*        tree accounts for all tokens (Grammar!Accounts)                  *)
(***************************************************************************)
EXTENDS Grammar

E0 == [any |-> FALSE, nf |-> FALSE]
EErr == [any |-> TRUE, nf |-> FALSE]
ENF == [any |-> TRUE, nf |-> TRUE]
JoinE(x, y) == [any |-> x.any \/ y.any, nf |-> x.nf \/ y.nf]
Opaque(e) == [any |-> e.any, nf |-> FALSE]

EOFTok == [k |-> "EOF", v |-> ""]
Cur(ts, p) == IF p.pos >= p.lo /\ p.pos <= p.hi THEN ts[p.pos] ELSE EOFTok
More(p) == p.pos <= p.hi
Nx(p) == IF p.pos <= p.hi THEN [p EXCEPT !.pos = @ + 1] ELSE [p EXCEPT !.pos = p.hi + 2]
Pv(p) == IF p.pos > p.lo /\ p.pos <= p.hi + 1 THEN [p EXCEPT !.pos = @ - 1] ELSE p
R(v, p, e) == [v |-> v, p |-> p, e |-> e]

\* literals whose spelling is not an integer (the model cannot look inside strings)
NonIntegerSpellings == {"1.5", "0.5", "1e3", "0.0", "2.5"}
IsIntegerLit(e) == e.k = "Lit" /\ e.kind = "Number" /\ e.value \notin NonIntegerSpellings

BinPrec(k) ==
  CASE k \in {"Star", "Slash", "Mod"} -> 4
    [] k \in {"Plus", "Minus"} -> 3
    [] k \in {"Eq", "NE", "LT", "LE", "GT", "GE", "CaseInsensitiveEq", "CaseInsensitiveNE", "In"} -> 2
    [] k = "And" -> 1
    [] k = "Or" -> 0
    [] OTHER -> -1

---------------------------------------------------------------------------
(* split: advance to right before the next token of kind `search` outside  *)
(* nested brackets; returns the sub-parser and the advanced parent         *)

RECURSIVE SplitScan(_, _, _, _)
\* returns the position of the terminator (not consumed), or hi + 2 when input ended
SplitScan(ts, p, search, stack) ==
  IF ~More(p) THEN p.hi + 2
  ELSE LET t == ts[p.pos] IN
       IF t.k \in {"LParen", "LBracket"}
       THEN SplitScan(ts, Nx(p), search, Append(stack, IF t.k = "LParen" THEN "RParen" ELSE "RBracket"))
       ELSE IF t.k \in {"RParen", "RBracket"}
       THEN IF stack # <<>>
            THEN LET RECURSIVE PopTo(_)
                     PopTo(s) == IF s = <<>> THEN <<>>
                                 ELSE IF s[Len(s)] = t.k THEN SubSeq(s, 1, Len(s) - 1)
                                 ELSE PopTo(SubSeq(s, 1, Len(s) - 1))
                 IN SplitScan(ts, Nx(p), search, PopTo(stack))
            ELSE IF search = t.k THEN p.pos ELSE SplitScan(ts, Nx(p), search, stack)
       ELSE IF t.k = search /\ stack = <<>> THEN p.pos
       ELSE SplitScan(ts, Nx(p), search, stack)

Split(ts, p, search) ==
  LET e == SplitScan(ts, p, search, <<>>) IN
  IF e = p.hi + 2 THEN [sub |-> [lo |-> p.pos, hi |-> p.hi, pos |-> p.pos], p |-> [p EXCEPT !.pos = p.hi + 2]]
  ELSE [sub |-> [lo |-> p.pos, hi |-> e - 1, pos |-> p.pos], p |-> [p EXCEPT !.pos = e]]

EndSplit(p) == IF p.pos <= p.hi THEN EErr ELSE E0

---------------------------------------------------------------------------
RECURSIVE PExpr(_, _), PUnary(_, _), PPrimary(_, _), PInner(_, _), PTrail(_, _, _, _, _), PTrailInner(_, _, _, _, _),
          PExprListMore(_, _, _), PQualMore(_, _, _), PTabular(_, _)

PIdent(ts, p) ==
  LET t == Cur(ts, p) p1 == Nx(p) IN
  IF t.k \notin {"Identifier", "QuotedIdentifier"} THEN R(None, Pv(p1), ENF)
  ELSE R([name |-> t.v, quoted |-> t.k = "QuotedIdentifier"], p1, E0)

PQualMore(ts, p, parts) ==
  LET t == Cur(ts, p) p1 == Nx(p) IN
  IF t.k # "Dot" THEN R([k |-> "QIdent", parts |-> parts], Pv(p1), E0)
  ELSE LET sel == PIdent(ts, p1) IN
       IF sel.e.any THEN R([k |-> "QIdent", parts |-> parts], sel.p, Opaque(sel.e))
       ELSE PQualMore(ts, sel.p, Append(parts, sel.v))

PQual(ts, p) ==
  LET id == PIdent(ts, p) IN
  IF id.e.any THEN R(None, id.p, id.e) ELSE PQualMore(ts, id.p, <<id.v>>)

\* exprList: one or more comma separated expressions
PExprListMore(ts, p, acc) ==
  LET restore == p
      t == Cur(ts, p) p1 == Nx(p)
  IN IF ~More(p) THEN R(acc, p1, E0)
     ELSE IF t.k # "Comma" THEN R(acc, Pv(p1), E0)
     ELSE LET x == PExpr(ts, p1) IN
          IF x.e.nf THEN R(acc, restore, E0)
          ELSE LET acc2 == IF x.v # None THEN Append(acc, x.v) ELSE acc IN
               IF x.e.any THEN R(acc2, x.p, Opaque(x.e)) ELSE PExprListMore(ts, x.p, acc2)

PExprList(ts, p) ==
  LET first == PExpr(ts, p) IN
  IF first.e.any THEN R(<<>>, first.p, first.e) ELSE PExprListMore(ts, first.p, <<first.v>>)

PInner(ts, p) ==
  LET t == Cur(ts, p) p1 == Nx(p) IN
  IF ~More(p) THEN R(None, p1, ENF)
  ELSE CASE t.k \in {"Number", "String"} -> R([k |-> "Lit", kind |-> t.k, value |-> t.v], p1, E0)
         [] t.k = "Identifier" ->
              LET id == PQual(ts, Pv(p1)) IN
              IF id.e.any THEN id
              ELSE IF Len(id.v.parts) > 1 THEN id
              ELSE LET nt == Cur(ts, id.p) p2 == Nx(id.p) IN
                   IF nt.k # "LParen" THEN R(id.v, Pv(p2), E0)
                   ELSE LET sp == Split(ts, p2, "RParen")
                            al == PExprList(ts, sp.sub)
                            \* nothing found: f(); found: one trailing comma is allowed
                            e1 == IF al.e.nf THEN E0 ELSE al.e
                            subp == IF al.e.nf THEN al.p
                                    ELSE IF ~al.e.any THEN (IF Cur(ts, al.p).k = "Comma" THEN Nx(al.p) ELSE Pv(Nx(al.p))) ELSE al.p
                            e2 == JoinE(e1, EndSplit(subp))
                            ft == Cur(ts, sp.p) p3 == Nx(sp.p)
                        IN IF ft.k = "RParen"
                           THEN R([k |-> "Call", fn |-> t.v, args |-> al.v, tc |-> FALSE], p3, e2)
                           ELSE R([k |-> "Call", fn |-> t.v, args |-> al.v, tc |-> FALSE], Pv(p3), JoinE(e2, EErr))
         [] t.k = "QuotedIdentifier" -> PQual(ts, Pv(p1))
         [] t.k = "LParen" ->
              LET sp == Split(ts, p1, "RParen")
                  x == PExpr(ts, sp.sub)
                  e1 == JoinE(Opaque(x.e), EndSplit(x.p))
                  et == Cur(ts, sp.p) p2 == Nx(sp.p)
              IN IF et.k # "RParen" THEN R([k |-> "Paren", x |-> x.v], p2, JoinE(e1, EErr))
                 ELSE R([k |-> "Paren", x |-> x.v], p2, e1)
         [] OTHER -> R(None, Pv(p1), ENF)

PPrimary(ts, p) ==
  LET x == PInner(ts, p) IN
  IF x.e.any THEN x
  ELSE LET t == Cur(ts, x.p) p1 == Nx(x.p) IN
       IF ~More(x.p) THEN R(x.v, p1, E0)
       ELSE IF t.k = "LBracket"
       THEN LET sp == Split(ts, p1, "RBracket")
                ix == PExpr(ts, sp.sub)
                e1 == JoinE(Opaque(ix.e), EndSplit(ix.p))
                ct == Cur(ts, sp.p) p2 == Nx(sp.p)
            IN R([k |-> "Index", x |-> x.v, index |-> ix.v], p2, IF ct.k = "RBracket" THEN e1 ELSE JoinE(e1, EErr))
       ELSE R(x.v, Pv(p1), E0)

PUnary(ts, p) ==
  LET t == Cur(ts, p) p1 == Nx(p) IN
  IF ~More(p) THEN R(None, p1, ENF)
  ELSE IF t.k \in {"Plus", "Minus"}
  THEN LET x == PPrimary(ts, p1) IN R([k |-> "Un", op |-> t.k, x |-> x.v], x.p, Opaque(x.e))
  ELSE PPrimary(ts, Pv(p1))

\* resolve operators of higher precedence than prec1 to the right of y
PTrailInner(ts, p, y, prec1, err) ==
  LET t2 == Cur(ts, p) IN
  IF ~More(p) THEN R(y, Nx(p), err)      \* next() reported the end: the cursor is latched
  ELSE LET prec2 == BinPrec(t2.k) IN
       IF prec2 < 0 \/ prec2 <= prec1 THEN R(y, p, err)
       ELSE LET r == PTrail(ts, p, y, prec1 + 1, E0) IN
            PTrailInner(ts, r.p, r.v, prec1, JoinE(err, Opaque(r.e)))

\* exprBinaryTrail
PTrail(ts, p, x, minPrec, err) ==
  LET op1 == Cur(ts, p) p1 == Nx(p) IN
  IF ~More(p) THEN R(x, p1, err)
  ELSE LET prec1 == BinPrec(op1.k) IN
       IF prec1 < 0 \/ prec1 < minPrec THEN R(x, Pv(p1), err)
       ELSE IF op1.k = "In"
       THEN LET lp == Cur(ts, p1) p2 == Nx(p1) IN
            IF lp.k # "LParen" THEN R([k |-> "In", x |-> x, vals |-> <<>>], p2, JoinE(err, EErr))
            ELSE LET sp == Split(ts, p2, "RParen")
                     vl == PExprList(ts, sp.sub)
                     e1 == JoinE(err, JoinE(Opaque(vl.e), EndSplit(vl.p)))
                     rp == Cur(ts, sp.p) p3 == Nx(sp.p)
                 IN IF rp.k # "RParen" THEN R([k |-> "In", x |-> x, vals |-> vl.v], p3, JoinE(e1, EErr))
                    ELSE PTrail(ts, p3, [k |-> "In", x |-> x, vals |-> vl.v], minPrec, e1)
       ELSE LET y == PUnary(ts, p1)
                e1 == JoinE(err, Opaque(y.e))
                r == PTrailInner(ts, y.p, y.v, prec1, e1)
            IN PTrail(ts, r.p, [k |-> "Bin", op |-> op1.k, x |-> x, y |-> r.v], minPrec, r.e)

PExpr(ts, p) ==
  LET x == PUnary(ts, p) IN
  IF x.e.nf THEN x
  ELSE LET r == PTrail(ts, x.p, x.v, 0, E0) IN R(r.v, r.p, JoinE(x.e, r.e))

---------------------------------------------------------------------------
(* tabular operators                                                       *)

PSortTerm(ts, p) ==
  LET x == PExpr(ts, p) IN
  IF x.e.any THEN R(None, x.p, x.e)
  ELSE LET term0 == [x |-> x.v, ascGiven |-> FALSE, asc |-> FALSE, nullsGiven |-> FALSE, nullsFirst |-> FALSE]
           t == Cur(ts, x.p) p1 == Nx(x.p)
       IN IF ~More(x.p) THEN R(term0, p1, E0)
          ELSE IF t.k # "Identifier" \/ t.v \notin {"asc", "desc", "nulls"} THEN R(term0, Pv(p1), E0)
          ELSE LET term1 == CASE t.v = "asc" -> [term0 EXCEPT !.ascGiven = TRUE, !.asc = TRUE, !.nullsFirst = TRUE]
                              [] t.v = "desc" -> [term0 EXCEPT !.ascGiven = TRUE]
                              [] OTHER -> term0
                   pa == IF t.v = "nulls" THEN Pv(p1) ELSE p1
                   t2 == Cur(ts, pa) p2 == Nx(pa)
               IN IF ~More(pa) THEN R(term1, p2, E0)
                  ELSE IF t2.k = "Identifier" /\ t2.v = "nulls"
                  THEN LET t3 == Cur(ts, p2) p3 == Nx(p2) IN
                       IF t3.k = "Identifier" /\ t3.v \in {"first", "last"}
                       THEN R([term1 EXCEPT !.nullsGiven = TRUE, !.nullsFirst = (t3.v = "first")], p3, E0)
                       ELSE R(term1, Pv(p3), EErr)
                  ELSE R(term1, Pv(p2), E0)

RECURSIVE PSortTerms(_, _, _)
PSortTerms(ts, p, acc) ==
  LET t == PSortTerm(ts, p)
      acc2 == IF t.v # None THEN Append(acc, t.v) ELSE acc
  IN IF t.e.any THEN R(acc2, t.p, Opaque(t.e))
     ELSE LET c == Cur(ts, t.p) p1 == Nx(t.p) IN
          IF c.k # "Comma" THEN R(acc2, Pv(p1), E0) ELSE PSortTerms(ts, p1, acc2)

PRowCount(ts, p) ==
  LET x == PExpr(ts, p) IN
  IF x.e.any THEN x
  ELSE IF x.v.k = "Lit" /\ ~IsIntegerLit(x.v) THEN R(x.v, x.p, EErr) ELSE x

\* [name =] expr with back-tracking (extend and summarize columns)
PNamedCol(ts, p) ==
  LET id == PIdent(ts, p)
      asg == Cur(ts, id.p)
      named == ~id.e.any /\ asg.k = "Assign"
      pe == IF named THEN Nx(id.p) ELSE p        \* restorePos (ident failing has not moved the cursor)
      x == PExpr(ts, IF id.e.any THEN id.p ELSE pe)
  IN R([name |-> IF named THEN id.v ELSE None, x |-> x.v], x.p, IF named THEN Opaque(x.e) ELSE x.e)

RECURSIVE PExtendCols(_, _, _), PProjectCols(_, _, _), PSumCols(_, _, _, _), PGroupCols(_, _, _), PProps(_, _, _)
PExtendCols(ts, p, acc) ==
  LET c == PNamedCol(ts, p) IN
  IF c.e.any THEN R(acc, c.p, Opaque(c.e))
  ELSE LET acc2 == Append(acc, c.v) s == Cur(ts, c.p) p1 == Nx(c.p) IN
       IF ~More(c.p) THEN R(acc2, p1, E0)
       ELSE IF s.k # "Comma" THEN R(acc2, Pv(p1), E0) ELSE PExtendCols(ts, p1, acc2)

PProjectCols(ts, p, acc) ==
  LET id == PIdent(ts, p) IN
  IF id.e.any THEN R(acc, id.p, Opaque(id.e))
  ELSE LET s == Cur(ts, id.p) p1 == Nx(id.p) IN
       IF ~More(id.p) THEN R(Append(acc, [name |-> id.v, x |-> None]), p1, E0)
       ELSE IF s.k = "Comma" THEN PProjectCols(ts, p1, Append(acc, [name |-> id.v, x |-> None]))
       ELSE IF s.k = "Assign"
       THEN LET x == PExpr(ts, p1)
                acc2 == Append(acc, [name |-> id.v, x |-> x.v])
            IN IF x.e.any THEN R(acc2, x.p, Opaque(x.e))
               ELSE LET s2 == Cur(ts, x.p) p2 == Nx(x.p) IN
                    IF ~More(x.p) THEN R(acc2, p2, E0)
                    ELSE IF s2.k # "Comma" THEN R(acc2, p2, EErr) ELSE PProjectCols(ts, p2, acc2)
       ELSE R(Append(acc, [name |-> id.v, x |-> None]), Pv(p1), E0)

\* aggregates of summarize; returns [cols, trailingComma, stop] through v
PSumCols(ts, p, acc, trailing) ==
  LET c == PNamedCol(ts, p) IN
  IF c.e.nf THEN R([cols |-> acc, trailing |-> trailing, done |-> FALSE], c.p, E0)
  ELSE LET acc2 == Append(acc, c.v) IN
       IF c.e.any THEN R([cols |-> acc2, trailing |-> FALSE, done |-> TRUE], c.p, Opaque(c.e))
       ELSE LET s == Cur(ts, c.p) p1 == Nx(c.p) IN
            IF ~More(c.p) THEN R([cols |-> acc2, trailing |-> FALSE, done |-> TRUE], p1, E0)
            ELSE IF s.k # "Comma" THEN R([cols |-> acc2, trailing |-> FALSE, done |-> FALSE], Pv(p1), E0)
            ELSE PSumCols(ts, p1, acc2, TRUE)

PGroupCols(ts, p, acc) ==
  LET c == PNamedCol(ts, p) IN
  IF c.e.nf THEN R(acc, c.p, Opaque(c.e))
  ELSE LET acc2 == Append(acc, c.v) IN
       IF c.e.any THEN R(acc2, c.p, Opaque(c.e))
       ELSE LET s == Cur(ts, c.p) p1 == Nx(c.p) IN
            IF ~More(c.p) THEN R(acc2, p1, E0)
            ELSE IF s.k # "Comma" THEN R(acc2, Pv(p1), E0) ELSE PGroupCols(ts, p1, acc2)

PSummarize(ts, p) ==
  LET a == PSumCols(ts, p, <<>>, FALSE)
      op0 == [k |-> "Summarize", cols |-> a.v.cols, by |-> FALSE, groupBy |-> <<>>, cby |-> FALSE]
  IN IF a.v.done THEN R(op0, a.p, a.e)
     ELSE LET s == Cur(ts, a.p) p1 == Nx(a.p) IN
          IF ~More(a.p) THEN R(op0, p1, IF a.v.cols = <<>> \/ a.v.trailing THEN EErr ELSE E0)
          ELSE IF s.k # "By" THEN R(op0, Pv(p1), IF a.v.cols = <<>> \/ a.v.trailing THEN EErr ELSE E0)
          ELSE LET g == PGroupCols(ts, p1, <<>>) IN
               R([op0 EXCEPT !.by = TRUE, !.groupBy = g.v], g.p, g.e)

PProps(ts, p, acc) ==
  LET name == PIdent(ts, p) IN
  IF name.e.any THEN R(acc, name.p, Opaque(name.e))
  ELSE LET asg == Cur(ts, name.p) p1 == Nx(name.p) IN
       IF asg.k # "Assign" THEN R(acc, p1, EErr)
       ELSE LET val == PExpr(ts, p1) IN
            IF val.e.any THEN R(acc, val.p, Opaque(val.e))
            ELSE LET acc2 == Append(acc, [name |-> name.v, value |-> val.v])
                     t == Cur(ts, val.p) p2 == Nx(val.p)
                 IN IF t.k = "RParen" THEN R(acc2, p2, E0)
                    ELSE IF t.k # "Comma" THEN R(acc2, p2, EErr) ELSE PProps(ts, p2, acc2)

PRender(ts, p) ==
  LET chart == PIdent(ts, p)
      op0 == [k |-> "Render", chart |-> chart.v, with |-> FALSE, props |-> <<>>]
  IN IF chart.e.any THEN R(op0, chart.p, EErr)
     ELSE LET t == Cur(ts, chart.p) p1 == Nx(chart.p) IN
          IF ~More(chart.p) THEN R(op0, p1, E0)
          ELSE IF ~(t.k = "Identifier" /\ t.v = "with") THEN R(op0, Pv(p1), E0)
          ELSE LET lp == Cur(ts, p1) p2 == Nx(p1) IN
               IF lp.k # "LParen" THEN R([op0 EXCEPT !.with = TRUE], p2, EErr)
               ELSE LET ps == PProps(ts, p2, <<>>) IN R([op0 EXCEPT !.with = TRUE, !.props = ps.v], ps.p, ps.e)

JoinKindsKnown == {"innerunique", "inner", "leftouter"}

PJoin(ts, p) ==
  LET op0 == [k |-> "Join", flavor |-> None, right |-> None, conds |-> <<>>]
      t == Cur(ts, p) p1 == Nx(p)
  IN IF ~More(p) THEN R(op0, p1, EErr)
     ELSE
     LET \* optional kind = flavor
         hasKind == t.k = "Identifier" /\ t.v = "kind"
         a == Cur(ts, p1)
         f == Cur(ts, Nx(p1))
         kindOK == hasKind /\ a.k = "Assign" /\ f.k = "Identifier"
         pk == IF hasKind THEN Nx(Nx(p1)) ELSE Pv(p1)
         flavor == IF kindOK THEN [name |-> f.v, quoted |-> FALSE] ELSE None
         e0 == IF kindOK /\ f.v \notin JoinKindsKnown THEN EErr ELSE E0
     IN IF hasKind /\ a.k # "Assign" THEN R(op0, Nx(p1), EErr)
        ELSE IF hasKind /\ f.k # "Identifier" THEN R(op0, Nx(Nx(p1)), EErr)
        ELSE LET lp == Cur(ts, pk) p2 == Nx(pk) IN
             IF lp.k # "LParen" THEN R([op0 EXCEPT !.flavor = flavor], p2, JoinE(e0, EErr))
             ELSE LET sp == Split(ts, p2, "RParen")
                      rt == PTabular(ts, sp.sub)
                      e1 == JoinE(e0, JoinE(Opaque(rt.e), EndSplit(rt.p)))
                      rp == Cur(ts, sp.p) p3 == Nx(sp.p)
                      op1 == [op0 EXCEPT !.flavor = flavor, !.right = rt.v]
                  IN IF rp.k # "RParen" THEN R(op1, p3, JoinE(e1, EErr))
                     ELSE LET on == Cur(ts, p3) p4 == Nx(p3) IN
                          IF ~(on.k = "Identifier" /\ on.v = "on") THEN R(op1, p4, JoinE(e1, EErr))
                          ELSE LET cs == PExprList(ts, p4) IN
                               R([op1 EXCEPT !.conds = cs.v], cs.p, JoinE(e1, Opaque(cs.e)))

\* one operator inside its split range; returns the operator (or None) and the error incl. endSplit
POperator(ts, sub) ==
  LET name == Cur(ts, sub) p1 == Nx(sub) IN
  IF ~More(sub) THEN R(None, p1, EErr)
  ELSE IF name.k # "Identifier" THEN R(None, p1, EErr)
  ELSE LET r ==
         CASE name.v = "count" -> R([k |-> "Count"], p1, E0)
           [] name.v \in {"where", "filter"} -> LET x == PExpr(ts, p1) IN R([k |-> "Where", pred |-> x.v], x.p, Opaque(x.e))
           [] name.v \in {"sort", "order"} ->
                LET by == Cur(ts, p1) p2 == Nx(p1) IN
                IF by.k # "By" THEN R([k |-> "Sort", terms |-> <<>>], p2, EErr)
                ELSE LET t == PSortTerms(ts, p2, <<>>) IN R([k |-> "Sort", terms |-> t.v], t.p, t.e)
           [] name.v \in {"take", "limit"} -> LET n == PRowCount(ts, p1) IN R([k |-> "Take", n |-> n.v], n.p, Opaque(n.e))
           [] name.v = "top" ->
                LET n == PRowCount(ts, p1) IN
                IF n.e.any THEN R([k |-> "Top", n |-> n.v, col |-> None], n.p, Opaque(n.e))
                ELSE LET by == Cur(ts, n.p) p2 == Nx(n.p) IN
                     IF by.k # "By" THEN R([k |-> "Top", n |-> n.v, col |-> None], Pv(p2), EErr)
                     ELSE LET c == PSortTerm(ts, p2) IN R([k |-> "Top", n |-> n.v, col |-> c.v], c.p, Opaque(c.e))
           [] name.v = "project" -> LET c == PProjectCols(ts, p1, <<>>) IN R([k |-> "Project", cols |-> c.v], c.p, c.e)
           [] name.v = "extend" -> LET c == PExtendCols(ts, p1, <<>>) IN R([k |-> "Extend", cols |-> c.v], c.p, c.e)
           [] name.v = "summarize" -> PSummarize(ts, p1)
           [] name.v = "join" -> PJoin(ts, p1)
           [] name.v = "as" -> LET n == PIdent(ts, p1) IN R([k |-> "As", name |-> n.v], n.p, Opaque(n.e))
           [] name.v = "render" -> PRender(ts, p1)
           [] OTHER -> R(None, p1, [any |-> TRUE, nf |-> FALSE, skipEnd |-> TRUE])
       IN IF "skipEnd" \in DOMAIN r.e THEN R(None, r.p, EErr)      \* unknown operator: `continue` before endSplit
          ELSE R(r.v, r.p, JoinE(r.e, EndSplit(r.p)))

RECURSIVE POperators(_, _, _, _)
POperators(ts, p, ops, err) ==
  LET pipe == Cur(ts, p) p1 == Nx(p) IN
  IF pipe.k # "Pipe" THEN R(ops, Pv(p1), err)
  ELSE LET sp == Split(ts, p1, "Pipe")
           o == POperator(ts, sp.sub)
       IN POperators(ts, sp.p, IF o.v # None THEN Append(ops, o.v) ELSE ops, JoinE(err, o.e))

PTabular(ts, p) ==
  LET name == PIdent(ts, p) IN
  IF name.e.any THEN R(None, name.p, name.e)
  ELSE LET o == POperators(ts, name.p, <<>>, E0) IN
       R([k |-> "Tabular", table |-> name.v, ops |-> o.v], o.p, o.e)

PLet(ts, p) ==
  LET kw == Cur(ts, p) p1 == Nx(p) IN
  IF ~(kw.k = "Identifier" /\ kw.v = "let") THEN R(None, Pv(p1), ENF)
  ELSE LET name == PIdent(ts, p1)
           s0 == [k |-> "Let", name |-> name.v, x |-> None]
       IN IF name.e.any THEN R(s0, name.p, Opaque(name.e))
          ELSE LET asg == Cur(ts, name.p) p2 == Nx(name.p) IN
               IF asg.k # "Assign" THEN R(s0, p2, EErr)
               ELSE LET x == PExpr(ts, p2) IN R([s0 EXCEPT !.x = x.v], x.p, Opaque(x.e))

\* splitSemi
RECURSIVE SemiEnd(_, _, _)
SemiEnd(ts, i, hi) == IF i > hi THEN hi + 1 ELSE IF ts[i].k = "Semi" THEN i ELSE SemiEnd(ts, i + 1, hi)

RECURSIVE PStatements(_, _, _, _)
PStatements(ts, i, stmts, err) ==
  LET n == Len(ts)
      e == SemiEnd(ts, i, n)
      sub == [lo |-> i, hi |-> e - 1, pos |-> i]
      lt == PLet(ts, sub)
      st == IF lt.e.nf THEN PTabular(ts, lt.p) ELSE lt       \* firstParse
      res == IF st.e.nf
             THEN \* an empty statement is fine; anything else left over is an error
                  [stmts |-> stmts, err |-> IF st.p.pos <= st.p.hi THEN EErr ELSE err]
             ELSE [stmts |-> IF st.v # None THEN Append(stmts, st.v) ELSE stmts,
                   err |-> JoinE(err, JoinE(Opaque(st.e), EndSplit(st.p)))]
  IN IF e > n THEN res ELSE PStatements(ts, e + 1, res.stmts, res.err)

\* parser.Parse on a token sequence: [ok, tree]
ParseProgram(ts) ==
  LET r == PStatements(ts, 1, <<>>, E0) IN [ok |-> ~r.err.any, tree |-> r.stmts]
=============================================================================
