------------------------------ MODULE PlanCheck ------------------------------
(***************************************************************************)
(* C02, C03, C05.                                                          *)
(*                                                                         *)
(* Design level: after every operator of every generated pipeline (every   *)
(* state of the choice tree is a prefix), the statement rendered by the    *)
(* QuerySplit model, read by Sql!ReadStmt and evaluated by Rel!SqlSem,     *)
(* returns on every database of the family what Rel!PipelineSem returns    *)
(* for the operators applied left to right; and it is well formed (C05).   *)
(*                                                                         *)
(* Trace validation: the same relation on the statement the real Compile   *)
(* returned (tokens from the harness's SQL lexer).                         *)
(***************************************************************************)
EXTENDS GenProg, QuerySplit, IOUtils

CONSTANTS PlanFamily, MaxOps, DbRows,
          CoreFrom,   \* sequences use the full menu for the first CoreFrom operators, then CoreMenu
          JoinDepth   \* join family: up to JoinDepth operators before and after the join (1 or 2)

---------------------------------------------------------------------------
(* databases                                                               *)

Vals == {Null, I(1), I(2)}
RowsOver(n) == IF n = 2 THEN {<<x, y>> : x \in Vals, y \in Vals} ELSE {<<x, y, z>> : x \in Vals, y \in Vals, z \in Vals}
SeqsUpTo(RS, n) == UNION {[1..m -> RS] : m \in 0..n}

\* one table T(a, b): every instance with up to DbRows rows over {NULL, 1, 2}^2
SingleDbs == { [t \in {"T"} |-> [cols |-> <<"a", "b">>, rows |-> rs]] : rs \in SeqsUpTo(RowsOver(2), DbRows) }

\* with one row per table duplicates would never occur: the same row twice is added (innerunique, DISTINCT)
WithDoubles(RS) == SeqsUpTo(RS, DbRows) \cup (IF DbRows = 1 THEN {<<r, r>> : r \in RS} ELSE {})
\* three tables for joins: T(k, a), B(k, b), C(k, c); keys over {NULL, 1, 2}, payloads distinguish the tables
JoinKeyRows(v) == {<<x, v>> : x \in Vals}
JoinDbs ==
  { [t \in {"T", "B", "C"} |->
       IF t = "T" THEN [cols |-> <<"k", "a">>, rows |-> tr]
       ELSE IF t = "B" THEN [cols |-> <<"k", "b">>, rows |-> br]
       ELSE [cols |-> <<"k", "c">>, rows |-> << <<I(1), I(7)>>, <<I(2), I(9)>> >>]] :
    tr \in WithDoubles(JoinKeyRows(I(1)) \cup {<<I(1), I(2)>>}),
    br \in WithDoubles(JoinKeyRows(I(5)) \cup {<<I(1), I(3)>>}) }

---------------------------------------------------------------------------
(* operator menus with meaning                                             *)

ca == Col("a")
cb == Col("b")
SemMenu == <<
  Where(Bin("GT", ca, Num("1"))),
  Where(Call("isnull", <<cb>>)),
  Where(Bin("Eq", ca, cb)),
  Project(<<PCol("a", None)>>),
  Project(<<PCol("x", Bin("Plus", ca, cb)), PCol("b", None)>>),
  Project(<<PCol("b", None), PCol("a", None)>>),
  Extend(<<ECol(Id("y"), Bin("Star", ca, Num("2")))>>),
  Extend(<<ECol(None, Bin("Plus", ca, cb))>>),
  Summarize(<<ECol(Id("n"), Call("count", <<>>))>>, <<ECol(None, cb)>>, FALSE),
  Summarize(<<ECol(Id("s"), Call("sum", <<ca>>)), ECol(Id("m"), Call("max", <<cb>>))>>, <<>>, FALSE),
  Summarize(<<>>, <<ECol(None, ca)>>, FALSE),
  Summarize(<<ECol(None, Call("count", <<>>)), ECol(Id("c"), Call("countif", <<Bin("GT", ca, Num("1"))>>))>>, <<ECol(Id("g"), cb)>>, TRUE),
  Sort(<<TermD(ca)>>),
  Sort(<<Term(ca, TRUE, TRUE, FALSE, TRUE)>>),
  Sort(<<Term(cb, TRUE, TRUE, TRUE, FALSE), Term(ca, TRUE, FALSE, FALSE, FALSE)>>),
  Take(Num("1")),
  Take(Num("2")),
  Top(Num("1"), TermD(ca)),
  Top(Num("2"), Term(cb, TRUE, TRUE, FALSE, TRUE)),
  Count,
  As("X"),
  Render("bar", <<Prop("title", Str("t"))>>),
  Top(Num("1"), Term(ca, TRUE, TRUE, FALSE, TRUE)),
  Where(Bin("LE", ca, Num("1"))),
  Sort(<<TermD(cb)>>)
>>
\* a smaller menu for the later positions of long sequences: every operator kind,
\* filters that are not monotone in the sort keys, limits under both directions
CoreMenu == <<1, 2, 24, 5, 7, 9, 13, 14, 16, 18, 23, 20, 21, 22>>
\* CoreFrom = 0: every position from the operators whose order matters most (sorts, filters, limits, top), so that
\* sequences of four stay enumerable
OrderMenu == <<13, 14, 25, 1, 24, 16, 17, 18, 19>>
NoRepeat == {7, 8, 21, 22}     \* extend introduces fresh names only; as / render names are used once

\* joins: T(k, a) with B(k, b) [and C(k, c)]
ck == Col("k")
JoinMenu == <<
  Join(None, Tab("B", <<>>), <<ck>>),
  Join(Id("inner"), Tab("B", <<>>), <<ck>>),
  Join(Id("leftouter"), Tab("B", <<>>), <<ck>>),
  Join(Id("innerunique"), Tab("B", <<>>), <<Bin("Eq", Qual("$left", "k"), Qual("$right", "k"))>>),
  Join(Id("inner"), Tab("B", <<>>), <<Bin("Eq", Qual("$right", "k"), Qual("$left", "a"))>>),
  Join(Id("inner"), Tab("B", <<>>), <<ck, Bin("GT", Col("b"), Num("3"))>>),
  Join(Id("leftouter"), Tab("B", <<>>), <<ck, Bin("Eq", Qual("$left", "a"), Num("1"))>>),
  Join(Id("inner"), Tab("B", <<Where(Bin("GT", Col("b"), Num("3")))>>), <<ck>>),
  Join(None, Tab("B", <<Take(Num("1"))>>), <<ck>>),
  Join(Id("inner"), Tab("B", <<Project(<<PCol("k", None)>>), Sort(<<TermD(ck)>>)>>), <<ck>>),
  Join(Id("leftouter"), Tab("B", <<Summarize(<<ECol(Id("n"), Call("count", <<>>))>>, <<ECol(None, ck)>>, FALSE)>>), <<ck>>),
  Join(Id("inner"), Tab("B", <<Join(Id("inner"), Tab("C", <<>>), <<ck>>)>>), <<ck>>),
  Join(Id("leftouter"), Tab("B", <<Join(None, Tab("C", <<Where(Bin("GT", Col("c"), Num("7")))>>), <<ck>>), Project(<<PCol("k", None), PCol("c", None)>>)>>), <<ck>>),
  Join(Id("inner"), Tab("C", <<>>), <<ck>>),
  Join(None, Tab("C", <<>>), <<ck>>),
  Join(Id("leftouter"), Tab("C", <<>>), <<ck>>),
  \* equalities between columns of one side are ordinary null-safe comparisons
  Join(Id("inner"), Tab("B", <<>>), <<Call("not", <<Bin("Eq", Qual("$left", "k"), Qual("$left", "a"))>>)>>),
  Join(Id("leftouter"), Tab("B", <<>>), <<ck, Bin("NE", Bin("Eq", Qual("$right", "k"), Qual("$right", "b")), Col("true"))>>),
  Join(None, Tab("B", <<Summarize(<<>>, <<ECol(None, ck)>>, FALSE)>>), <<ck>>),
  \* a default-kind join nested in the right-hand pipeline after a filter (its own left side must be de-duplicated)
  Join(Id("inner"), Tab("B", <<Where(Bin("GT", Col("b"), Num("3"))), Join(None, Tab("C", <<>>), <<ck>>)>>), <<ck>>),
  \* every other operator kind as the last one of the right-hand pipeline
  Join(None, Tab("B", <<As("R")>>), <<ck>>),
  Join(Id("leftouter"), Tab("B", <<Where(Bin("GT", Col("b"), Num("3"))), As("R")>>), <<ck>>),
  Join(Id("inner"), Tab("B", <<Extend(<<ECol(Id("z"), Bin("Plus", Col("b"), Num("1")))>>)>>), <<ck>>),
  Join(Id("inner"), Tab("B", <<Top(Num("1"), TermD(Col("b")))>>), <<ck>>),
  Join(None, Tab("B", <<Sort(<<TermD(Col("b"))>>)>>), <<ck>>)
>>
SecondJoins == {14, 15, 16}
\* what may precede / follow a join
LeftMenu == <<
  Where(Bin("GT", Col("a"), Num("1"))),
  Project(<<PCol("k", None), PCol("a", None)>>),
  Take(Num("1")),
  Sort(<<Term(ck, TRUE, TRUE, FALSE, TRUE)>>),
  Extend(<<ECol(Id("z"), Bin("Plus", Col("a"), Num("1")))>>),
  As("L"),
  Summarize(<<>>, <<ECol(None, ck), ECol(None, Col("a"))>>, FALSE)
>>
AfterMenu == <<
  Where(Call("isnull", <<Col("b")>>)),
  Project(<<PCol("a", None), PCol("b", None)>>),
  Count,
  Sort(<<Term(Col("b"), TRUE, TRUE, FALSE, TRUE), TermD(Col("a"))>>),
  Take(Num("1")),
  Summarize(<<ECol(Id("n"), Call("count", <<>>))>>, <<ECol(None, Col("a"))>>, FALSE),
  Top(Num("1"), TermD(Col("a")))
>>

\* one or two operators from a menu as one choice: 0 none, 1..n one, beyond that the ordered pairs of different entries
PairRange(menu) == LET n == Len(menu) IN
  IF JoinDepth >= 2 THEN {x \in 0..(n + n * n) : x <= n \/ ((x - n - 1) \div n) # ((x - n - 1) % n)} ELSE 0..n
PairOps(menu, x) == LET n == Len(menu) IN
  IF x = 0 THEN <<>> ELSE IF x <= n THEN <<menu[x]>>
  ELSE <<menu[((x - n - 1) \div n) + 1], menu[((x - n - 1) % n) + 1]>>

\* choice trees
PlanChoices(c) ==
  CASE PlanFamily = "seq" ->
         IF Len(c) >= MaxOps THEN {}
         ELSE (IF CoreFrom = 0 THEN SeqRange(OrderMenu)
               ELSE IF Len(c) < CoreFrom THEN DOMAIN SemMenu ELSE SeqRange(CoreMenu)) \ {x \in NoRepeat : \E i \in DOMAIN c : c[i] = x}
    [] PlanFamily = "join" ->
         \* <<left prefix (0 = none), join, after (0 = none)>> then optionally a second join
         (CASE Len(c) = 0 -> PairRange(LeftMenu)
            [] Len(c) = 1 -> DOMAIN JoinMenu
            [] Len(c) = 2 -> PairRange(AfterMenu)
            [] Len(c) = 3 -> IF MaxOps >= 4 /\ c[2] <= 7 THEN {0} \cup SecondJoins ELSE {}
            [] OTHER -> {})
PlanOps(c) ==
  CASE PlanFamily = "seq" -> [i \in DOMAIN c |-> SemMenu[c[i]]]
    [] PlanFamily = "join" ->
         (IF Len(c) >= 1 THEN PairOps(LeftMenu, c[1]) ELSE <<>>)
         \o (IF Len(c) >= 2 THEN <<JoinMenu[c[2]]>> ELSE <<>>)
         \o (IF Len(c) >= 3 THEN PairOps(AfterMenu, c[3]) ELSE <<>>)
         \o (IF Len(c) >= 4 /\ c[4] # 0 THEN <<JoinMenu[c[4]]>> ELSE <<>>)
PlanTab(c) == Tab("T", PlanOps(c))
PlanDbs == IF PlanFamily = "seq" THEN SingleDbs ELSE JoinDbs

---------------------------------------------------------------------------
(* C05: well-formedness of the statement                                   *)

RECURSIVE SrcNames(_)
SrcNames(src) ==
  CASE src.k = "table" -> {src.name}
    [] src.k = "sub" -> SrcNames(src.sel.from)
    [] src.k = "join" -> SrcNames(src.l) \cup SrcNames(src.r)

RECURSIVE TablesOf(_)
TablesOf(tab) ==
  {tab.table.name} \cup UNION { IF tab.ops[i].k = "Join" THEN TablesOf(tab.ops[i].right) ELSE {} : i \in DOMAIN tab.ops }

\* names the source chose itself with `as`: only generated names are promised to be unique
RECURSIVE AsNames(_)
AsNames(tab) ==
  {tab.ops[i].name.name : i \in {i \in DOMAIN tab.ops : tab.ops[i].k = "As"}}
  \cup UNION { IF tab.ops[i].k = "Join" THEN AsNames(tab.ops[i].right) ELSE {} : i \in DOMAIN tab.ops }

WellFormed(stmt, base, user) ==
  LET n == Len(stmt.ctes)
      name(i) == stmt.ctes[i].name
      uses(i) == SrcNames(stmt.ctes[i].sel.from)
  IN /\ \A i, j \in 1..n : i # j /\ name(i) = name(j) => name(i) \in user               \* generated names are unique
     /\ \A i \in 1..n : uses(i) \subseteq base \cup {name(j) : j \in 1..(i - 1)}        \* reads tables or earlier CTEs
     /\ SrcNames(stmt.main.from) \subseteq base \cup {name(j) : j \in 1..n}
     /\ \A i \in 1..n : name(i) \in SrcNames(stmt.main.from) \/ \E j \in (i + 1)..n : name(i) \in uses(j)   \* none unused

---------------------------------------------------------------------------
(* design level                                                            *)

VARIABLE l
pvars == <<ch, l>>

PInit == ch = <<>> /\ l = 0
PNext == (\E x \in PlanChoices(ch) : ch' = Append(ch, x)) /\ UNCHANGED l

\* tab = None: only readability and well-formedness are judged (C05)
Judge(tab, tables, user, toks, dbs) ==
  LET st == ReadStmt(toks, "ch")
      stp == ReadStmt(toks, "pg")
  IN IF ~st.ok \/ ~stp.ok THEN [status |-> "unreadable", db |-> <<>>]
     ELSE IF stp.v # st.v THEN [status |-> "precedence-dependent", db |-> <<>>]
     ELSE IF ~WellFormed(st.v, tables, user) THEN [status |-> "malformed", db |-> <<>>]
     ELSE IF tab = None THEN [status |-> "ok", db |-> <<>>]
     ELSE LET bad == { db \in dbs : LET p == PipelineSem(tab, db) IN p.det /\ ~SameResult(p, SqlSem(st.v, db)) } IN
          IF bad = {} THEN [status |-> "ok", db |-> <<>>]
          ELSE [status |-> "differs", db |-> LET d == CHOOSE d \in bad : TRUE IN [t \in DOMAIN d |-> d[t].rows]]

PlanDesignOK ==
  ch # <<>> => Judge(PlanTab(ch), TablesOf(PlanTab(ch)), AsNames(PlanTab(ch)), RenderStmt(PlanTab(ch), EmptyFn), PlanDbs).status = "ok"

\* the antecedent of the comparison is not vacuous: on most databases the result is determined
Determined == ch # <<>> => \E db \in PlanDbs : PipelineSem(PlanTab(ch), db).det

EmitPlan ==
  ch # <<>> =>
    PrintT("CASE " \o ToJson([fam |-> PlanFamily, ch |-> ch, toks |-> Toks(<<PlanTab(ch)>>), tree |-> <<PlanTab(ch)>>,
                              xp |-> "ok", xc |-> "ok", plan |-> RenderStmt(PlanTab(ch), EmptyFn)]))

---------------------------------------------------------------------------
(* trace validation                                                        *)

Trace == IF "TRACE_FILE" \in DOMAIN IOEnv THEN ndJsonDeserialize(IOEnv.TRACE_FILE) ELSE <<>>

DbsOf(fam) == IF fam = "join" THEN JoinDbs ELSE SingleDbs

Verdict(rec) ==
  LET j == Judge(rec.tab, SeqRange(rec.tables), SeqRange(rec.user), rec.sql, DbsOf(rec.fam)) IN
  [id |-> rec.id, ok |-> j.status = "ok", why |-> j.status, db |-> j.db,
   drift |-> rec.tab # None /\ rec.sql # RenderStmt(rec.tab, EmptyFn)]

TraceInit == l = 1 /\ ch = <<>>
TraceNext ==
  /\ l <= Len(Trace)
  /\ PrintT("TV " \o ToJson(Verdict(Trace[l])))
  /\ l' = l + 1
  /\ UNCHANGED ch
TraceDone == TLCGet("stats").diameter - 1 = Len(Trace)
=============================================================================
