------------------------------ MODULE TraceConc ------------------------------
(***************************************************************************)
(* Trace validation for C14.  Each record holds, per goroutine, the hook   *)
(* labels the real code emitted during one round of concurrent calls (the  *)
(* calls of MCConc).  There is no global order of events across            *)
(* goroutines (recording one would synchronise them), so TLC looks for an  *)
(* interleaving of the per-goroutine logs that is a behaviour of Conc: a   *)
(* record is accepted when all its events have been consumed and every     *)
(* goroutine is done.  Records are independent: Reset moves to the next.   *)
(***************************************************************************)
EXTENDS MCConc, IOUtils

Trace == IF "TRACE_FILE" \in DOMAIN IOEnv THEN ndJsonDeserialize(IOEnv.TRACE_FILE) ELSE <<>>

VARIABLES l, pos
tvars == <<vars, l, pos>>
tview == <<view, l, pos>>

Log(g) == IF g \in DOMAIN Trace[l].logs THEN Trace[l].logs[g] ELSE <<>>

ActionFor(label, g) ==
  CASE label = "Enter" -> Enter(g) [] label = "CopyStart" -> CopyStart(g) [] label = "CopyEnd" -> CopyEnd(g)
    [] label = "BindLet" -> BindLet(g) [] label = "BindDone" -> BindDone(g) [] label = "OnceEnter" -> OnceEnter(g)
    [] label = "InitStart" -> InitStart(g) [] label = "InitEnd" -> InitEnd(g) [] label = "TableRead" -> TableRead(g)
    [] label = "Return" -> Return(g) [] OTHER -> FALSE

TraceInit == Init /\ l = 1 /\ pos = [g \in G |-> 0]

Consume(g) ==
  /\ l <= Len(Trace)
  /\ pos[g] < Len(Log(g))
  /\ ActionFor(Log(g)[pos[g] + 1], g)
  /\ pos' = [pos EXCEPT ![g] = @ + 1]
  /\ UNCHANGED l

Accepted == l <= Len(Trace) /\ AllDone /\ \A g \in G : pos[g] = Len(Log(g))

\* next record (whether or not this one was accepted; only accepted ones are reported)
Reset ==
  /\ l <= Len(Trace)
  /\ (Accepted => PrintT("TV " \o ToJson([id |-> Trace[l].id, ok |-> TRUE, why |-> ""])))
  /\ l' = l + 1
  /\ pos' = [g \in G |-> 0]
  /\ once' = "fresh" /\ table' = "nil"
  /\ pc' = [g \in G |-> IF Calls[g] = <<>> THEN "Done" ELSE "Enter"]
  /\ ci' = [g \in G |-> 1] /\ left' = [g \in G |-> <<0, 0>>] /\ scopeOf' = [g \in G |-> "own"]
  /\ content' = [m \in Maps |-> {"p"}] /\ scopeOwn' = [g \in G |-> {}] /\ results' = [g \in G |-> <<>>]
  /\ initBy' = {} /\ hist' = <<>>

TraceNext == (\E g \in G : Consume(g)) \/ Reset
=============================================================================
