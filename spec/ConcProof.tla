------------------------------ MODULE ConcProof ------------------------------
(***************************************************************************)
(* C14 for any number of goroutines and calls: an inductive invariant of   *)
(* ConcCore.tla (with sync.Once and a private copy of the parameters, as   *)
(* the code has them) that implies the absence of data races on the        *)
(* function table and on the callers' parameter maps, a single             *)
(* initialisation, reads of an initialised table only, and untouched       *)
(* parameter maps.  Checked by the TLA+ proof system (tlapm); TLC checks    *)
(* the same invariants exhaustively for three goroutines and five calls    *)
(* (MCConc.tla) and the two negative controls.                             *)
(***************************************************************************)
EXTENDS ConcCore, TLAPS

ASSUME Code == UseOnce = TRUE /\ CopyParams = TRUE
ASSUME MapIds == "own" \notin Maps          \* "own" names a call's private scope, not a caller's map

InInit(g) == pc[g] \in {"InitStart", "InitEnd"}

IndInv ==
  /\ once \in {"fresh", "running", "done"}
  /\ table \in {"nil", "set"}
  /\ pc \in [G -> {"Enter", "CopyStart", "CopyEnd", "BindLet", "BindDone", "OnceEnter", "InitStart", "InitEnd",
                   "TableRead", "Return", "Done"}]
  /\ scopeOf = [g \in G |-> "own"]
  /\ content = [m \in Maps |-> {"p"}]
  /\ initBy \subseteq G
  /\ \A g \in G : InInit(g) => once = "running"
  /\ \A g1, g2 \in G : InInit(g1) /\ InInit(g2) => g1 = g2
  /\ once = "fresh" => initBy = {} /\ table = "nil"
  /\ once = "running" => /\ table = "nil"
                         /\ \E g \in G : InInit(g)
                         /\ \A g \in G : pc[g] = "InitStart" => initBy = {}
                         /\ \A g \in G : pc[g] = "InitEnd" => initBy = {g}
  /\ once = "done" => table = "set"
  /\ \A g \in G : pc[g] = "TableRead" => once = "done"
  /\ \A g1, g2 \in initBy : g1 = g2

\* the single-initialisation property without cardinalities
InitOnceAlt == \A g1, g2 \in initBy : g1 = g2

Safe == NoRace /\ InitOnceAlt /\ TableSetWhenRead /\ ParamsUnchanged

LEMMA InitInv == Init => IndInv
  BY Code DEF Init, IndInv, InInit

LEMMA InvSafe == IndInv => Safe
  <1> SUFFICES ASSUME IndInv PROVE Safe
    OBVIOUS
  <1>1 NoRace
    BY MapIds DEF IndInv, NoRace, WritingTable, ReadingTable, WritingMap, ReadingMap, InInit
  <1>2 InitOnceAlt
    BY DEF IndInv, InitOnceAlt
  <1>3 TableSetWhenRead
    BY DEF IndInv, TableSetWhenRead, ReadingTable, WritingTable
  <1>4 ParamsUnchanged
    BY DEF IndInv, ParamsUnchanged
  <1> QED BY <1>1, <1>2, <1>3, <1>4 DEF Safe

LEMMA StepInv == IndInv /\ [Next]_vars => IndInv'
  <1> SUFFICES ASSUME IndInv, [Next]_vars PROVE IndInv'
    OBVIOUS
  <1> USE Code
  <1>1 ASSUME NEW g \in G, Enter(g) PROVE IndInv'
    BY <1>1 DEF IndInv, Enter, Goto, Step, InInit
  <1>2 ASSUME NEW g \in G, CopyStart(g) PROVE IndInv'
    BY <1>2 DEF IndInv, CopyStart, Goto, Step, InInit
  <1>3 ASSUME NEW g \in G, CopyEnd(g) PROVE IndInv'
    BY <1>3 DEF IndInv, CopyEnd, Goto, Step, InInit, NextWork
  <1>4 ASSUME NEW g \in G, BindLet(g) PROVE IndInv'
    BY <1>4 DEF IndInv, BindLet, Goto, Step, InInit
  <1>5 ASSUME NEW g \in G, BindDone(g) PROVE IndInv'
    BY <1>5 DEF IndInv, BindDone, Goto, Step, InInit, NextWork
  <1>6 ASSUME NEW g \in G, OnceEnter(g) PROVE IndInv'
    BY <1>6 DEF IndInv, OnceEnter, Goto, Step, InInit
  <1>7 ASSUME NEW g \in G, InitStart(g) PROVE IndInv'
    BY <1>7 DEF IndInv, InitStart, Goto, Step, InInit
  <1>8 ASSUME NEW g \in G, InitEnd(g) PROVE IndInv'
    BY <1>8 DEF IndInv, InitEnd, Goto, Step, InInit
  <1>9 ASSUME NEW g \in G, TableRead(g) PROVE IndInv'
    BY <1>9 DEF IndInv, TableRead, Goto, Step, InInit, NextWork
  <1>10 ASSUME NEW g \in G, Return(g) PROVE IndInv'
    BY <1>10 DEF IndInv, Return, Goto, Step, InInit
  <1>11 ASSUME UNCHANGED vars PROVE IndInv'
    BY <1>11 DEF IndInv, vars, InInit
  <1> QED BY <1>1, <1>2, <1>3, <1>4, <1>5, <1>6, <1>7, <1>8, <1>9, <1>10, <1>11 DEF Next

THEOREM Safety == Spec => []Safe
  <1>1 Spec => []IndInv
    BY InitInv, StepInv, PTL DEF Spec
  <1> QED BY <1>1, InvSafe, PTL


---------------------------------------------------------------------------
(* purity: the result of a call is a function of that call alone           *)

CallRec == [lets : Nat, tabs : Nat, map : Maps \cup {"nil"}]
ASSUME CallsType == Calls \in [G -> Seq(CallRec)]

Base(c) == IF c.map = "nil" THEN {} ELSE {"p"}
Bound(g) == pc[g] \in {"BindLet", "BindDone", "OnceEnter", "InitStart", "InitEnd", "TableRead", "Return"}
Looking(g) == pc[g] \in {"OnceEnter", "InitStart", "InitEnd", "TableRead", "Return"}

TypePure ==
  /\ ci \in [G -> Nat \ {0}]
  /\ left \in [G -> Nat \X Int]
  /\ results \in [G -> Seq(SUBSET {"p", "x"})]
  /\ scopeOwn \in [G -> SUBSET {"p", "x"}]
PureAt(g) ==
  /\ pc[g] # "Done" => ci[g] \in DOMAIN Calls[g] /\ Len(results[g]) = ci[g] - 1
  /\ pc[g] = "Done" => Len(results[g]) = Len(Calls[g])
  /\ pc[g] \in {"CopyStart", "CopyEnd"} => left[g] = <<Calls[g][ci[g]].lets, Calls[g][ci[g]].tabs>>
  /\ Bound(g) =>
       /\ left[g][1] <= Calls[g][ci[g]].lets
       /\ scopeOwn[g] = Base(Calls[g][ci[g]]) \cup (IF left[g][1] < Calls[g][ci[g]].lets THEN {"x"} ELSE {})
  /\ pc[g] \in {"BindLet", "BindDone"} => left[g][1] > 0
  /\ Looking(g) => left[g][1] = 0
  /\ \A n \in DOMAIN results[g] : results[g][n] = Expected(Calls[g][n])
PureInv == TypePure /\ \A g \in G : PureAt(g)

Ind2 == IndInv /\ PureInv

LEMMA InitPure == Init => PureInv
  BY Code, CallsType DEF Init, PureInv, TypePure, PureAt, Bound, Looking, CallRec

LEMMA PureSafe == PureInv => ResultIsFunctionOfInput
  BY DEF PureInv, PureAt, ResultIsFunctionOfInput

LEMMA StepPure == Ind2 /\ [Next]_vars => PureInv'
  <1> SUFFICES ASSUME IndInv, PureInv, [Next]_vars PROVE PureInv'
    BY DEF Ind2
  <1> USE Code, CallsType
  <1>1 ASSUME NEW g \in G, Enter(g) PROVE PureInv'
    BY <1>1 DEF PureInv, TypePure, PureAt, IndInv, Enter, Goto, Step, Bound, Looking, Call, CallRec
  <1>2 ASSUME NEW g \in G, CopyStart(g) PROVE PureInv'
    BY <1>2 DEF PureInv, TypePure, PureAt, IndInv, CopyStart, Goto, Step, Bound, Looking, Call
  <1>3 ASSUME NEW g \in G, CopyEnd(g) PROVE PureInv'
    BY <1>3 DEF PureInv, TypePure, PureAt, IndInv, CopyEnd, Goto, Step, Bound, Looking, Call, NextWork, Base, CallRec
  <1>4 ASSUME NEW g \in G, BindLet(g) PROVE PureInv'
    BY <1>4 DEF PureInv, TypePure, PureAt, IndInv, BindLet, Goto, Step, Bound, Looking, Call
  <1>5 ASSUME NEW g \in G, BindDone(g) PROVE PureInv'
    <2>0 PureAt(g) /\ TypePure /\ pc[g] = "BindDone" /\ left[g] \in Nat \X Int /\ left[g][1] \in Nat /\ left[g][2] \in Int
      BY <1>5 DEF PureInv, TypePure, BindDone
    <2>1 left[g][1] > 0 /\ left[g][1] <= Calls[g][ci[g]].lets
      BY <2>0 DEF PureAt, Bound
    <2>2 left' = [left EXCEPT ![g] = <<left[g][1] - 1, left[g][2]>>] /\ left'[g] = <<left[g][1] - 1, left[g][2]>>
      BY <1>5, <2>0 DEF BindDone, TypePure
    <2>3 left'[g][1] = left[g][1] - 1 /\ left'[g][1] \in Nat /\ left'[g][2] = left[g][2]
      BY <2>0, <2>1, <2>2
    <2>4 TypePure'
      BY <1>5, <2>0, <2>1, <2>2, <2>3 DEF TypePure, BindDone, IndInv
    <2>5 scopeOwn'[g] = scopeOwn[g] \cup {"x"} /\ UNCHANGED <<ci, results>>
      BY <1>5 DEF BindDone, IndInv, TypePure, PureInv
    <2>6 pc'[g] = NextWork(g, <<left[g][1] - 1, left[g][2]>>)
      BY <1>5 DEF BindDone, Goto, IndInv
    <2>7 PureAt(g)'
      <3>1 ci[g] \in DOMAIN Calls[g] /\ Calls[g][ci[g]] \in CallRec /\ Calls[g][ci[g]].lets \in Nat
        BY <2>0, CallsType DEF PureAt, CallRec
      <3>2 /\ pc'[g] \in {"BindLet", "OnceEnter", "Return"}
           /\ pc'[g] = "BindLet" => left[g][1] - 1 > 0
           /\ pc'[g] # "BindLet" => left[g][1] - 1 = 0
        BY <2>6, <2>0, <2>1 DEF NextWork
      <3>3 ci'[g] = ci[g] /\ results'[g] = results[g]
        BY <2>5
      <3> QED BY <2>0, <2>1, <2>3, <2>5, <3>1, <3>2, <3>3 DEF PureAt, Bound, Looking, Base
    <2>8 ASSUME NEW h \in G, h # g PROVE PureAt(h)'
      BY <1>5, <2>8 DEF PureInv, TypePure, PureAt, IndInv, BindDone, Goto, Step, Bound, Looking
    <2> QED BY <2>4, <2>7, <2>8 DEF PureInv
  <1>6 ASSUME NEW g \in G, OnceEnter(g) PROVE PureInv'
    BY <1>6 DEF PureInv, TypePure, PureAt, IndInv, OnceEnter, Goto, Step, Bound, Looking, Call
  <1>7 ASSUME NEW g \in G, InitStart(g) PROVE PureInv'
    BY <1>7 DEF PureInv, TypePure, PureAt, IndInv, InitStart, Goto, Step, Bound, Looking, Call
  <1>8 ASSUME NEW g \in G, InitEnd(g) PROVE PureInv'
    BY <1>8 DEF PureInv, TypePure, PureAt, IndInv, InitEnd, Goto, Step, Bound, Looking, Call
  <1>9 ASSUME NEW g \in G, TableRead(g) PROVE PureInv'
    <2>0 PureAt(g) /\ TypePure /\ pc[g] = "TableRead" /\ left[g] \in Nat \X Int /\ left[g][1] \in Nat /\ left[g][2] \in Int
      BY <1>9 DEF PureInv, TypePure, TableRead
    <2>1 left[g][1] = 0 /\ left[g][1] <= Calls[g][ci[g]].lets
      BY <2>0 DEF PureAt, Bound, Looking
    <2>2 left' = [left EXCEPT ![g] = <<left[g][1], left[g][2] - 1>>] /\ left'[g] = <<left[g][1], left[g][2] - 1>>
      BY <1>9, <2>0 DEF TableRead, TypePure
    <2>3 left'[g][1] = 0
      BY <2>0, <2>1, <2>2
    <2>5 UNCHANGED <<ci, results, scopeOwn>>
      BY <1>9 DEF TableRead
    <2>6 pc'[g] = NextWork(g, <<left[g][1], left[g][2] - 1>>) /\ pc'[g] \in {"OnceEnter", "Return"}
      BY <1>9, <2>1 DEF TableRead, Goto, IndInv, NextWork
    <2>7 PureAt(g)'
      BY <2>0, <2>1, <2>3, <2>5, <2>6 DEF PureAt, Bound, Looking, Base
    <2>8 ASSUME NEW h \in G, h # g PROVE PureAt(h)'
      BY <1>9, <2>8 DEF PureInv, TypePure, PureAt, IndInv, TableRead, Goto, Step, Bound, Looking
    <2>9 TypePure'
      <3>1 left[g][2] - 1 \in Int
        BY <2>0
      <3> QED BY <1>9, <2>0, <2>2, <2>5 DEF TypePure, TableRead
    <2> QED BY <2>9, <2>7, <2>8 DEF PureInv
  <1>10 ASSUME NEW g \in G, Return(g) PROVE PureInv'
    <2>0 PureAt(g) /\ TypePure /\ pc[g] = "Return" /\ scopeOf[g] = "own" /\ results[g] \in Seq(SUBSET {"p", "x"})
         /\ scopeOwn[g] \in SUBSET {"p", "x"} /\ ci[g] \in Nat \ {0}
      BY <1>10 DEF PureInv, TypePure, Return, IndInv
    <2>1 /\ ci[g] \in DOMAIN Calls[g] /\ Calls[g] \in Seq(CallRec) /\ Calls[g][ci[g]] \in CallRec
         /\ Calls[g][ci[g]].lets \in Nat /\ Len(results[g]) = ci[g] - 1
      BY <2>0, CallsType DEF PureAt, CallRec
    <2>2 scopeOwn[g] = Expected(Calls[g][ci[g]])
      BY <2>0, <2>1 DEF PureAt, Bound, Looking, Expected, Base
    <2>3 results' = [results EXCEPT ![g] = Append(results[g], scopeOwn[g])] /\ results'[g] = Append(results[g], scopeOwn[g])
      BY <1>10, <2>0 DEF Return, TypePure
    <2>4 /\ results'[g] \in Seq(SUBSET {"p", "x"}) /\ Len(results'[g]) = ci[g]
         /\ \A n \in DOMAIN results'[g] : results'[g][n] = Expected(Calls[g][n])
      BY <2>0, <2>1, <2>2, <2>3 DEF PureAt
    <2>5 UNCHANGED <<left, scopeOwn>>
      BY <1>10 DEF Return
    <2>6 CASE ci[g] < Len(Calls[g])
      <3>1 ci' = [ci EXCEPT ![g] = ci[g] + 1] /\ pc'[g] = "Enter" /\ ci'[g] = ci[g] + 1
        BY <1>10, <2>6, <2>0 DEF Return, Goto, IndInv, TypePure
      <3>2 TypePure'
        BY <2>0, <2>3, <2>4, <2>5, <3>1 DEF TypePure
      <3>3 PureAt(g)'
        BY <2>1, <2>4, <2>6, <3>1 DEF PureAt, Bound, Looking
      <3>4 ASSUME NEW h \in G, h # g PROVE PureAt(h)'
        BY <1>10, <3>4, <3>1, <2>3, <2>5 DEF PureInv, TypePure, PureAt, IndInv, Return, Goto, Bound, Looking
      <3> QED BY <3>2, <3>3, <3>4 DEF PureInv
    <2>7 CASE ~(ci[g] < Len(Calls[g]))
      <3>1 UNCHANGED ci /\ pc'[g] = "Done" /\ ci[g] = Len(Calls[g])
        BY <1>10, <2>7, <2>0, <2>1 DEF Return, Goto, IndInv
      <3>2 TypePure'
        BY <2>0, <2>3, <2>4, <2>5, <3>1 DEF TypePure
      <3>3 PureAt(g)'
        BY <2>1, <2>4, <3>1 DEF PureAt, Bound, Looking
      <3>4 ASSUME NEW h \in G, h # g PROVE PureAt(h)'
        BY <1>10, <3>4, <3>1, <2>3, <2>5 DEF PureInv, TypePure, PureAt, IndInv, Return, Goto, Bound, Looking
      <3> QED BY <3>2, <3>3, <3>4 DEF PureInv
    <2> QED BY <2>6, <2>7
  <1>11 ASSUME UNCHANGED vars PROVE PureInv'
    BY <1>11 DEF PureInv, TypePure, PureAt, vars, Bound, Looking
  <1> QED BY <1>1, <1>2, <1>3, <1>4, <1>5, <1>6, <1>7, <1>8, <1>9, <1>10, <1>11 DEF Next

THEOREM Purity == Spec => []ResultIsFunctionOfInput
  <1>1 Init => Ind2
    BY InitInv, InitPure DEF Ind2
  <1>2 Ind2 /\ [Next]_vars => Ind2'
    BY StepInv, StepPure DEF Ind2
  <1>3 Spec => []Ind2
    BY <1>1, <1>2, PTL DEF Spec
  <1> QED BY <1>3, PureSafe, PTL DEF Ind2

=============================================================================
