--------------------------------- MODULE Rel ---------------------------------
(***************************************************************************)
(* Relational meaning of both sides (C02, C03).                            *)
(*                                                                         *)
(*   PipelineSem  applies the tabular operators of a PQL query one after   *)
(*                another, left to right, to a database instance.          *)
(*   SqlSem       evaluates the SQL statement (tree from Sql!ReadStmt)     *)
(*                on the same instance.                                    *)
(*                                                                         *)
(* Tables are [cols, rows]: column names in order and rows as tuples.      *)
(* Order: the reference reading of the dialect is that an ORDER BY inside  *)
(* a sub-select is preserved by outer SELECTs that only filter, project or *)
(* limit, and destroyed by GROUP BY, DISTINCT and JOIN.  The PQL side      *)
(* keeps, next to the rows, their order classes: rows in one class are     *)
(* mutually unordered (ties of the last sort, or everything before any     *)
(* sort).  A result is *determined* unless a row limit cut through a class *)
(* of rows that are not all equal; only determined results are compared:   *)
(* the SQL result, read in physical order, must consist of the classes in  *)
(* order, each class as a bag.                                             *)
(***************************************************************************)
EXTENDS ExprSem, Grammar, Sql

SeqRange(s) == {s[i] : i \in DOMAIN s}
IndexOf(s, x) == CHOOSE i \in DOMAIN s : s[i] = x /\ \A j \in 1..(i - 1) : s[j] # x
EmptyVal == [x \in {} |-> Null]

\* a row as a function from column names to values (first occurrence wins)
RowFn(cols, tup) == [c \in SeqRange(cols) |-> tup[IndexOf(cols, c)]]
PRow(cols, tup) == [cols |-> RowFn(cols, tup), scope |-> EmptyVal, ph |-> EmptyVal]

---------------------------------------------------------------------------
(* sorting                                                                 *)

\* -1, 0, 1 for one key under direction / null placement
KeyCmp(a, b, asc, nullsFirst) ==
  IF IsNullV(a) /\ IsNullV(b) THEN 0
  ELSE IF IsNullV(a) THEN (IF nullsFirst THEN -1 ELSE 1)
  ELSE IF IsNullV(b) THEN (IF nullsFirst THEN 1 ELSE -1)
  ELSE IF a = b THEN 0
  ELSE IF IsInt(a) /\ IsInt(b) THEN (IF (a.n < b.n) = asc THEN -1 ELSE 1)
  ELSE 0       \* values the specification does not order: treated as tied

RECURSIVE KeysCmp(_, _, _, _)
\* ka, kb: tuples of key values; dirs: tuple of [asc, nullsFirst]
KeysCmp(ka, kb, dirs, i) ==
  IF i > Len(dirs) THEN 0
  ELSE LET c == KeyCmp(ka[i], kb[i], dirs[i].asc, dirs[i].nullsFirst) IN
       IF c # 0 THEN c ELSE KeysCmp(ka, kb, dirs, i + 1)

\* stable insertion sort of indices 1..n by their key tuples
RECURSIVE SortIdx(_, _, _)
\* inserts from the back so that equal keys keep their order
SortIdx(n, keys, dirs) ==
  IF n = 0 THEN <<>>
  ELSE LET rest == SortIdx(n - 1, keys, dirs) IN
       \* element n goes after all elements that are <= it
       LET RECURSIVE Ins(_)
           Ins(s) == IF s = <<>> THEN <<n>>
                     ELSE IF KeysCmp(keys[n], keys[Head(s)], dirs, 1) < 0 THEN <<n>> \o s
                     ELSE <<Head(s)>> \o Ins(Tail(s))
       IN Ins(rest)

---------------------------------------------------------------------------
(* aggregates, shared by both sides                                        *)

RECURSIVE SumInts(_), MinMax(_, _)
SumInts(vs) == IF vs = <<>> THEN 0 ELSE Head(vs).n + SumInts(Tail(vs))
NonNull(vs) == SelectSeq(vs, LAMBDA v : ~IsNullV(v))
AllInts(vs) == \A i \in DOMAIN vs : IsInt(vs[i])
MinMax(vs, isMin) ==
  IF Len(vs) = 1 THEN vs[1]
  ELSE LET r == MinMax(Tail(vs), isMin) IN
       IF (Head(vs).n < r.n) = isMin THEN Head(vs) ELSE r
AggV(f, vs) ==
  LET nn == NonNull(vs) IN
  CASE f = "count" -> I(Len(vs))
    [] f = "countif" -> I(Len(SelectSeq(vs, LAMBDA v : v = B(TRUE))))
    [] f = "sum" -> IF nn = <<>> THEN Null ELSE IF AllInts(nn) THEN I(SumInts(nn)) ELSE Opq("sum", nn)
    [] f = "min" -> IF nn = <<>> THEN Null ELSE IF AllInts(nn) THEN MinMax(nn, TRUE) ELSE Opq("min", nn)
    [] f = "max" -> IF nn = <<>> THEN Null ELSE IF AllInts(nn) THEN MinMax(nn, FALSE) ELSE Opq("max", nn)
    [] OTHER -> Opq("agg:" \o f, vs)
AggNames == {"count", "countif", "sum", "min", "max"}

---------------------------------------------------------------------------
(* the PQL side                                                            *)

RECURSIVE Unparen(_)
Unparen(e) == IF e.k = "Paren" THEN Unparen(e.x) ELSE e

\* source text of an expression when the program is written with the fewest
\* separators (one space between two tokens unless one of them is a bracket,
\* comma, pipe or semicolon)
Lexeme(t) ==
  CASE t.k \in {"Identifier", "Number"} -> t.v
    [] t.k = "And" -> "and" [] t.k = "Or" -> "or" [] t.k = "In" -> "in" [] t.k = "By" -> "by"
    [] t.k = "Dot" -> "." [] t.k = "Comma" -> "," [] t.k = "Plus" -> "+" [] t.k = "Minus" -> "-" [] t.k = "Star" -> "*"
    [] t.k = "Slash" -> "/" [] t.k = "Mod" -> "%" [] t.k = "Eq" -> "==" [] t.k = "NE" -> "!=" [] t.k = "LT" -> "<"
    [] t.k = "LE" -> "<=" [] t.k = "GT" -> ">" [] t.k = "GE" -> ">=" [] t.k = "CaseInsensitiveEq" -> "=~"
    [] t.k = "CaseInsensitiveNE" -> "!~" [] t.k = "LParen" -> "(" [] t.k = "RParen" -> ")" [] t.k = "LBracket" -> "["
    [] t.k = "RBracket" -> "]" [] OTHER -> "?"
IsBracketish(t) == t.k \in {"LParen", "RParen", "LBracket", "RBracket", "Comma", "Pipe", "Semi"}
RECURSIVE JoinLex(_, _)
JoinLex(ts, i) ==
  IF i > Len(ts) THEN ""
  ELSE (IF i > 1 /\ ~IsBracketish(ts[i - 1]) /\ ~IsBracketish(ts[i]) THEN " " ELSE "") \o Lexeme(ts[i]) \o JoinLex(ts, i + 1)
SrcText(e) == JoinLex(ExprToks(e, ""), 1)

\* the name pql gives an unnamed column: the source text of its expression
\* (programs are rendered without optional white space)
ImplicitName(e) == SrcText(e)

\* value of a column expression of summarize over the rows of one group
PAgg(e, cols, rows) ==
  IF e.k = "Call" /\ e.fn \in AggNames
  THEN AggV(e.fn, [i \in DOMAIN rows |-> IF e.args = <<>> THEN B(TRUE) ELSE EvalP(e.args[1], PRow(cols, rows[i]))])
  ELSE IF rows = <<>> THEN Null ELSE EvalP(e, PRow(cols, rows[1]))    \* a grouping key: constant in the group

\* t = [cols, rows, cls, det]
PT(cols, rows, cls, det) == [cols |-> cols, rows |-> rows, cls |-> cls, det |-> det]
OneClass(rows) == [i \in DOMAIN rows |-> 1]
Keep(t, idx) == PT(t.cols, [i \in DOMAIN idx |-> t.rows[idx[i]]], [i \in DOMAIN idx |-> t.cls[idx[i]]], t.det)
SelectIdx(n, P(_)) == SelectSeq([i \in 1..n |-> i], P)

PSort(t, terms) ==
  LET keys == [i \in DOMAIN t.rows |-> [j \in DOMAIN terms |-> EvalP(terms[j].x, PRow(t.cols, t.rows[i]))]]
      dirs == [j \in DOMAIN terms |-> [asc |-> terms[j].asc, nullsFirst |-> terms[j].nullsFirst]]
      idx == SortIdx(Len(t.rows), keys, dirs)
      RECURSIVE Cls(_)
      Cls(i) == IF i = 1 THEN 1
                ELSE IF KeysCmp(keys[idx[i - 1]], keys[idx[i]], dirs, 1) = 0 THEN Cls(i - 1) ELSE Cls(i - 1) + 1
  IN PT(t.cols, [i \in DOMAIN idx |-> t.rows[idx[i]]], [i \in DOMAIN idx |-> Cls(i)], t.det)

PTake(t, nv) ==
  IF ~IsInt(nv) \/ nv.n < 0 THEN [t EXCEPT !.det = FALSE]
  ELSE IF nv.n >= Len(t.rows) THEN t
  ELSE LET n == nv.n
           cut == n >= 1 /\ t.cls[n] = t.cls[n + 1]
           \* the class that is cut: harmless when all its rows are equal
           same == \A i, j \in DOMAIN t.rows : (t.cls[i] = t.cls[n + 1] /\ t.cls[j] = t.cls[n + 1]) => t.rows[i] = t.rows[j]
       IN PT(t.cols, SubSeq(t.rows, 1, n), SubSeq(t.cls, 1, n), t.det /\ (~cut \/ same))

RECURSIVE DistinctRows(_, _)
DistinctRows(rows, acc) ==
  IF rows = <<>> THEN acc
  ELSE DistinctRows(Tail(rows), IF \E i \in DOMAIN acc : acc[i] = Head(rows) THEN acc ELSE Append(acc, Head(rows)))

\* join condition: bare name k means $left.k == $right.k; all conditions AND-ed
JoinCondP(c) ==
  IF c.k = "QIdent" /\ Len(c.parts) = 1 /\ ~c.parts[1].quoted /\ c.parts[1].name \notin {"true", "false", "null"}
  THEN Bin("Eq", Qual("$left", c.parts[1].name), Qual("$right", c.parts[1].name)) ELSE c
JoinRowFn(lc, lt, rc, rt) ==
  [c \in SeqRange(lc) \cup SeqRange(rc) \cup {"$left." \o x : x \in SeqRange(lc)} \cup {"$right." \o x : x \in SeqRange(rc)} |->
     IF c \in SeqRange(lc) THEN lt[IndexOf(lc, c)]
     ELSE IF c \in SeqRange(rc) THEN rt[IndexOf(rc, c)]
     ELSE IF \E x \in SeqRange(lc) : c = "$left." \o x THEN lt[IndexOf(lc, CHOOSE x \in SeqRange(lc) : c = "$left." \o x)]
     ELSE rt[IndexOf(rc, CHOOSE x \in SeqRange(rc) : c = "$right." \o x)]]

RECURSIVE PTab(_, _), POps(_, _, _, _)

PJoin(t, op, db) ==
  LET r == PTab(op.right, db)
      flavor == IF op.flavor = None THEN "innerunique" ELSE op.flavor.name
      lrows == IF flavor = "innerunique" THEN DistinctRows(t.rows, <<>>) ELSE t.rows
      Match(lt, rt) ==
        \A i \in DOMAIN op.conds :
          TruthNF(EvalP(JoinCondP(Unparen(op.conds[i])), [cols |-> JoinRowFn(t.cols, lt, r.cols, rt), scope |-> EmptyVal, ph |-> EmptyVal])) = B(TRUE)
      RECURSIVE ForLeft(_)
      ForLeft(i) ==
        IF i > Len(lrows) THEN <<>>
        ELSE LET ms == SelectSeq(r.rows, LAMBDA rt : Match(lrows[i], rt))
                 out == IF ms = <<>> /\ flavor = "leftouter"
                        THEN << lrows[i] \o [j \in DOMAIN r.cols |-> Null] >>
                        ELSE [j \in DOMAIN ms |-> lrows[i] \o ms[j]]
             IN out \o ForLeft(i + 1)
      rows == ForLeft(1)
  IN PT(t.cols \o r.cols, rows, OneClass(rows), t.det /\ r.det)

POp(t, op, db) ==
  CASE op.k = "Where" -> Keep(t, SelectIdx(Len(t.rows), LAMBDA i : EvalP(op.pred, PRow(t.cols, t.rows[i])) = B(TRUE)))
    [] op.k = "Count" -> PT(<<"count()">>, << <<I(Len(t.rows))>> >>, <<1>>, t.det)
    [] op.k = "Sort" -> PSort(t, op.terms)
    [] op.k = "Take" -> PTake(t, EvalP(op.n, PRow(<<>>, <<>>)))
    [] op.k = "Top" -> PTake(PSort(t, <<op.col>>), EvalP(op.n, PRow(<<>>, <<>>)))
    [] op.k = "Project" ->
         PT([j \in DOMAIN op.cols |-> op.cols[j].name.name],
            [i \in DOMAIN t.rows |-> [j \in DOMAIN op.cols |->
               EvalP(IF op.cols[j].x = None THEN [k |-> "QIdent", parts |-> <<op.cols[j].name>>] ELSE op.cols[j].x, PRow(t.cols, t.rows[i]))]],
            t.cls, t.det)
    [] op.k = "Extend" ->
         PT(t.cols \o [j \in DOMAIN op.cols |-> IF op.cols[j].name = None THEN ImplicitName(op.cols[j].x) ELSE op.cols[j].name.name],
            [i \in DOMAIN t.rows |-> t.rows[i] \o [j \in DOMAIN op.cols |-> EvalP(op.cols[j].x, PRow(t.cols, t.rows[i]))]],
            t.cls, t.det)
    [] op.k = "Summarize" ->
         LET keyOf(tup) == [j \in DOMAIN op.groupBy |-> EvalP(op.groupBy[j].x, PRow(t.cols, tup))]
             keys == DistinctRows([i \in DOMAIN t.rows |-> keyOf(t.rows[i])], <<>>)
             \* without group keys there is exactly one group, even for an empty input
             groups == IF op.groupBy = <<>> THEN << t.rows >>
                       ELSE [g \in DOMAIN keys |-> SelectSeq(t.rows, LAMBDA tup : keyOf(tup) = keys[g])]
             Name(c) == IF c.name = None THEN ImplicitName(c.x) ELSE c.name.name
             rows == [g \in DOMAIN groups |->
                        [j \in DOMAIN op.groupBy |-> PAgg(op.groupBy[j].x, t.cols, groups[g])]
                        \o [j \in DOMAIN op.cols |-> PAgg(op.cols[j].x, t.cols, groups[g])]]
         IN PT([j \in DOMAIN op.groupBy |-> Name(op.groupBy[j])] \o [j \in DOMAIN op.cols |-> Name(op.cols[j])],
               rows, OneClass(rows), t.det)
    [] op.k = "Join" -> PJoin(t, op, db)
    [] op.k = "As" -> t
    [] op.k = "Render" ->
         PT(t.cols \o <<"render_type">> \o [j \in DOMAIN op.props |-> "render_prop_" \o op.props[j].name.name],
            [i \in DOMAIN t.rows |-> t.rows[i] \o <<StrV(op.chart.name)>>
               \o [j \in DOMAIN op.props |->
                     LET v == op.props[j].value IN
                     IF v.k = "Lit" THEN StrV(v.value) ELSE IF v.k = "QIdent" THEN StrV(v.parts[1].name) ELSE StrV("")]],
            t.cls, t.det)

POps(t, ops, i, db) == IF i > Len(ops) THEN t ELSE POps(POp(t, ops[i], db), ops, i + 1, db)

\* db: function from base table names to [cols, rows]
PTab(tab, db) ==
  LET base == db[tab.table.name] IN
  POps(PT(base.cols, base.rows, OneClass(base.rows), TRUE), tab.ops, 1, db)

PipelineSem(tab, db) == PTab(tab, db)

---------------------------------------------------------------------------
(* the SQL side                                                            *)

SRow(fn) == [cols |-> fn, scope |-> EmptyVal, ph |-> EmptyVal]
TFail == [ok |-> FALSE]
TOk(cols, rows) == [ok |-> TRUE, cols |-> cols, rows |-> rows]

\* a row function for a FROM source: plain names and alias-qualified names
QualFn(alias, cols, tup) ==
  [c \in SeqRange(cols) \cup (IF alias = "" THEN {} ELSE {alias \o "." \o x : x \in SeqRange(cols)}) |->
     IF c \in SeqRange(cols) THEN tup[IndexOf(cols, c)]
     ELSE tup[IndexOf(cols, CHOOSE x \in SeqRange(cols) : c = alias \o "." \o x)]]

SAgg(e, fns) ==
  CASE e.k = "Call" /\ LowerName(e.fn) = "count" /\ (e.args = <<>> \/ e.args = <<SStar>>) -> AggV("count", [i \in DOMAIN fns |-> B(TRUE)])
    [] e.k = "CountIf" -> AggV("countif", [i \in DOMAIN fns |-> EvalS(e.x, SRow(fns[i]))])
    [] e.k = "Call" /\ e.fn = "countIf" /\ Len(e.args) = 1 ->                       \* ClickHouse's spelling of the same
         AggV("countif", [i \in DOMAIN fns |-> EvalS(e.args[1], SRow(fns[i]))])
    [] e.k = "Call" /\ e.fn \in {"sum", "min", "max"} /\ Len(e.args) = 1 ->
         AggV(e.fn, [i \in DOMAIN fns |-> EvalS(e.args[1], SRow(fns[i]))])
    [] OTHER -> IF fns = <<>> THEN Null ELSE EvalS(e, SRow(fns[1]))
IsAggItem(e) == (e.k = "Call" /\ (LowerName(e.fn) = "count" \/ e.fn \in {"sum", "min", "max", "countIf"})) \/ e.k = "CountIf"

RECURSIVE SSelect(_, _), SSource(_, _)

\* result: [ok, cols, rows, fns] where fns[i] is the row function of rows[i] (with qualified names)
SSource(src, env) ==
  CASE src.k = "table" ->
         IF src.name \notin DOMAIN env THEN TFail
         ELSE LET t == env[src.name] IN
              [ok |-> TRUE, cols |-> t.cols, rows |-> t.rows,
               fns |-> [i \in DOMAIN t.rows |-> QualFn(src.as, t.cols, t.rows[i])]]
    [] src.k = "sub" ->
         LET t == SSelect(src.sel, env) IN
         IF ~t.ok THEN TFail
         ELSE [ok |-> TRUE, cols |-> t.cols, rows |-> t.rows,
               fns |-> [i \in DOMAIN t.rows |-> QualFn(src.as, t.cols, t.rows[i])]]
    [] src.k = "join" ->
         LET l == SSource(src.l, env) r == SSource(src.r, env) IN
         IF ~l.ok \/ ~r.ok THEN TFail
         ELSE LET Merge(f, g) == [c \in DOMAIN f \cup DOMAIN g |-> IF c \in DOMAIN f THEN f[c] ELSE g[c]]
                  NullFn(g) == [c \in DOMAIN g |-> Null]
                  rNull == [c \in SeqRange(r.cols) \cup {src.r.as \o "." \o x : x \in SeqRange(r.cols)} |-> Null]
                  RECURSIVE ForLeft(_)
                  ForLeft(i) ==
                    IF i > Len(l.rows) THEN <<>>
                    ELSE LET js == SelectSeq([j \in DOMAIN r.rows |-> j],
                                             LAMBDA j : EvalS(src.on, SRow(Merge(l.fns[i], r.fns[j]))) = B(TRUE))
                             out == IF js = <<>> /\ src.kind = "left"
                                    THEN << [tup |-> l.rows[i] \o [j \in DOMAIN r.cols |-> Null], fn |-> Merge(l.fns[i], rNull)] >>
                                    ELSE [n \in DOMAIN js |-> [tup |-> l.rows[i] \o r.rows[js[n]], fn |-> Merge(l.fns[i], r.fns[js[n]])]]
                         IN out \o ForLeft(i + 1)
                  pairs == ForLeft(1)
              IN [ok |-> TRUE, cols |-> l.cols \o r.cols, rows |-> [i \in DOMAIN pairs |-> pairs[i].tup],
                  fns |-> [i \in DOMAIN pairs |-> pairs[i].fn]]

SSelect(sel, env) ==
  LET src == SSource(sel.from, env) IN
  IF ~src.ok THEN TFail
  ELSE
  LET \* WHERE
      keep == SelectSeq([i \in DOMAIN src.rows |-> i],
                        LAMBDA i : sel.where = SNone \/ EvalS(sel.where, SRow(src.fns[i])) = B(TRUE))
      rows1 == [i \in DOMAIN keep |-> src.rows[keep[i]]]
      fns1 == [i \in DOMAIN keep |-> src.fns[keep[i]]]
      grouped == sel.group # <<>> \/ \E j \in DOMAIN sel.items : sel.items[j].e # SStar /\ IsAggItem(sel.items[j].e)
      \* output columns
      ItemCols(j) == IF sel.items[j].e = SStar THEN src.cols
                     ELSE << IF sel.items[j].as # "" THEN sel.items[j].as ELSE "?" >>
      RECURSIVE AllCols(_)
      AllCols(j) == IF j > Len(sel.items) THEN <<>> ELSE ItemCols(j) \o AllCols(j + 1)
      cols == AllCols(1)
      \* rows, ungrouped
      ItemVals(j, i) == IF sel.items[j].e = SStar THEN rows1[i] ELSE << EvalS(sel.items[j].e, SRow(fns1[i])) >>
      RECURSIVE RowVals(_, _)
      RowVals(j, i) == IF j > Len(sel.items) THEN <<>> ELSE ItemVals(j, i) \o RowVals(j + 1, i)
      \* grouped
      keyOf(i) == [g \in DOMAIN sel.group |-> EvalS(sel.group[g], SRow(fns1[i]))]
      keys == DistinctRows([i \in DOMAIN rows1 |-> keyOf(i)], <<>>)
      groups == IF sel.group = <<>> THEN << [i \in DOMAIN rows1 |-> i] >>
                ELSE [g \in DOMAIN keys |-> SelectSeq([i \in DOMAIN rows1 |-> i], LAMBDA i : keyOf(i) = keys[g])]
      GroupVals(g) == [j \in DOMAIN sel.items |-> SAgg(sel.items[j].e, [n \in DOMAIN groups[g] |-> fns1[groups[g][n]]])]
      out0 == IF grouped THEN [g \in DOMAIN groups |-> GroupVals(g)] ELSE [i \in DOMAIN rows1 |-> RowVals(1, i)]
      \* row functions for ORDER BY: output columns first, then the source's names
      ofn(i) == LET o == RowFn(cols, out0[i]) IN
                IF grouped THEN o
                ELSE [c \in DOMAIN o \cup DOMAIN fns1[i] |-> IF c \in DOMAIN o THEN o[c] ELSE fns1[i][c]]
      out1 == IF sel.distinct THEN DistinctRows(out0, <<>>) ELSE out0
      \* ORDER BY (stable), evaluated on the un-deduplicated rows unless DISTINCT
      ofn1(i) == IF sel.distinct THEN RowFn(cols, out1[i]) ELSE ofn(i)
      okeys == [i \in DOMAIN out1 |-> [j \in DOMAIN sel.order |-> EvalS(sel.order[j].e, SRow(ofn1(i)))]]
      dirs == [j \in DOMAIN sel.order |-> [asc |-> sel.order[j].asc, nullsFirst |-> sel.order[j].nullsFirst]]
      idx == IF sel.order = <<>> THEN [i \in DOMAIN out1 |-> i] ELSE SortIdx(Len(out1), okeys, dirs)
      out2 == [i \in DOMAIN idx |-> out1[idx[i]]]
      lim == IF sel.limit = SNone THEN I(Len(out2)) ELSE EvalS(sel.limit, SRow(EmptyVal))
      out3 == IF IsInt(lim) /\ lim.n >= 0 /\ lim.n < Len(out2) THEN SubSeq(out2, 1, lim.n) ELSE out2
  IN IF grouped /\ \E j \in DOMAIN sel.items : sel.items[j].e = SStar THEN TFail
     ELSE IF sel.limit # SNone /\ ~(IsInt(lim) /\ lim.n >= 0) THEN TFail
     ELSE TOk(cols, out3)

RECURSIVE SCtes(_, _, _)
SCtes(ctes, i, env) ==
  IF i > Len(ctes) THEN env
  ELSE LET t == SSelect(ctes[i].sel, env) IN
       IF ~t.ok THEN [x \in {"!fail"} |-> TFail]
       ELSE SCtes(ctes, i + 1, [n \in DOMAIN env \cup {ctes[i].name} |-> IF n = ctes[i].name THEN t ELSE env[n]])

\* db: function from base table names to [cols, rows]
SqlSem(stmt, db) ==
  LET env == SCtes(stmt.ctes, 1, db) IN
  IF "!fail" \in DOMAIN env THEN TFail ELSE SSelect(stmt.main, env)

---------------------------------------------------------------------------
(* comparison                                                              *)

RECURSIVE CountIn(_, _)
CountIn(rows, r) == IF rows = <<>> THEN 0 ELSE (IF Head(rows) = r THEN 1 ELSE 0) + CountIn(Tail(rows), r)
SameBag(a, b) == Len(a) = Len(b) /\ \A i \in DOMAIN a : CountIn(a, a[i]) = CountIn(b, a[i])

\* the SQL rows, in physical order, consist of the PQL order classes in order, each as a bag
RECURSIVE ClassesMatch(_, _, _)
ClassesMatch(p, srows, i) ==
  IF i > Len(p.rows) THEN TRUE
  ELSE LET c == p.cls[i]
           j == CHOOSE j \in i..Len(p.rows) : p.cls[j] = c /\ (j = Len(p.rows) \/ p.cls[j + 1] # c)
       IN SameBag(SubSeq(p.rows, i, j), SubSeq(srows, i, j)) /\ ClassesMatch(p, srows, j + 1)

SameResult(p, s) ==
  /\ s.ok
  /\ s.cols = p.cols
  /\ Len(s.rows) = Len(p.rows)
  /\ ClassesMatch(p, s.rows, 1)
=============================================================================
