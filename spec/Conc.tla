-------------------------------- MODULE Conc --------------------------------
(***************************************************************************)
(* C14: the model of concurrent Compile calls is ConcCore.tla (state,      *)
(* actions at hook-point granularity, invariants; proved inductive for any *)
(* number of goroutines and calls in ConcProof.tla).  This module adds     *)
(* what only TLC needs: printing complete schedules for the replay.        *)
(***************************************************************************)
EXTENDS ConcCore, TLC, Json

CONSTANT EmitSchedules

EmitSchedule ==
  (EmitSchedules /\ AllDone) => PrintT("SCHED " \o ToJson([hist |-> hist]))
=============================================================================
