------------------------------ MODULE ExprEmit ------------------------------
(***************************************************************************)
(* The expression writer of pql.go (writeExpression,                       *)
(* writeExpressionMaybeParen, the built-in function rewrites) as a         *)
(* function from PQL trees to SQL tokens, one case per node kind as in the *)
(* code.  ctx = [mode, scope]: mode "default" | "join" | "let"; scope maps *)
(* a name to the SQL tokens substituted for it (let values, parameters).   *)
(* A compile error is an "err" token in the output.                        *)
(*                                                                         *)
(* Design-level theorem checked by TLC (module ExprCheck): for every       *)
(* generated expression, reading Emit(e) back with Sql!ReadExpr under both *)
(* precedence tables and evaluating it gives EvalP(e) on every row.        *)
(***************************************************************************)
EXTENDS Grammar, Sql

RECURSIVE Unwrap(_)
Unwrap(e) == IF e.k = "Paren" THEN Unwrap(e.x) ELSE e

NeedsParens(fn) == fn \in {"iif", "iff", "isnotnull", "isnull", "not", "strcat", "tolower", "toupper"}
KnownFn(fn) == fn \in {"count", "countif", "iif", "iff", "isnotnull", "isnull", "not", "now", "strcat", "tolower", "toupper"}

BinSql(op) ==
  CASE op = "And" -> KW("AND") [] op = "Or" -> KW("OR") [] op = "Plus" -> OP("+") [] op = "Minus" -> OP("-")
    [] op = "Star" -> OP("*") [] op = "Slash" -> OP("/") [] op = "Mod" -> OP("%") [] op = "LT" -> OP("<")
    [] op = "LE" -> OP("<=") [] op = "GT" -> OP(">") [] op = "GE" -> OP(">=")

Err(why) == <<ST("err", why)>>
HasErr(ts) == \E i \in DOMAIN ts : ts[i].k = "err"

\* does the (unwrapped) condition mention the left / right side of a join?
RECURSIVE Mentions(_, _)
Mentions(e, side) ==
  CASE e.k = "QIdent" -> \E i \in DOMAIN e.parts : e.parts[i].name = side
    [] e.k = "Lit" -> FALSE
    [] e.k \in {"Un", "Paren"} -> Mentions(e.x, side)
    [] e.k = "Bin" -> Mentions(e.x, side) \/ Mentions(e.y, side)
    [] e.k = "In" -> Mentions(e.x, side) \/ \E i \in DOMAIN e.vals : Mentions(e.vals[i], side)
    [] e.k = "Index" -> Mentions(e.x, side) \/ Mentions(e.index, side)
    [] e.k = "Call" -> \E i \in DOMAIN e.args : Mentions(e.args[i], side)

RECURSIVE Em(_, _), EmMP(_, _), EmTight(_, _), EmCommaList(_, _, _, _)

\* writeExpressionMaybeParen
EmMP(e0, ctx) ==
  LET e == Unwrap(e0) IN
  IF e.k \in {"QIdent", "Un", "Lit"} THEN Em(e, ctx)
  ELSE IF e.k = "Call" /\ ~(KnownFn(e.fn) /\ NeedsParens(e.fn)) THEN Em(e, ctx)
  ELSE <<OP("(")>> \o Em(e, ctx) \o <<OP(")")>>

\* operand of a sign or base of an index: a signed operand is parenthesised
EmTight(e0, ctx) ==
  IF Unwrap(e0).k = "Un" THEN <<OP("(")>> \o Em(e0, ctx) \o <<OP(")")>> ELSE EmMP(e0, ctx)

\* comma separated, each element written by writeExpression (mp = FALSE) or MaybeParen (mp = TRUE)
EmCommaList(es, ctx, mp, i) ==
  IF i > Len(es) THEN <<>>
  ELSE (IF i > 1 THEN <<OP(",")>> ELSE <<>>) \o (IF mp THEN EmMP(es[i], ctx) ELSE Em(es[i], ctx))
       \o EmCommaList(es, ctx, mp, i + 1)

RECURSIVE EmConcat(_, _, _)
EmConcat(es, ctx, i) ==
  IF i > Len(es) THEN <<>> ELSE (IF i > 1 THEN <<OP("||")>> ELSE <<>>) \o EmMP(es[i], ctx) \o EmConcat(es, ctx, i + 1)

EmCall(e, ctx) ==
  LET n == Len(e.args) IN
  CASE e.fn = "not" -> IF n # 1 THEN Err("arity") ELSE <<KW("NOT")>> \o EmMP(e.args[1], ctx)
    [] e.fn = "now" -> IF n # 0 THEN Err("arity") ELSE <<KW("CURRENT_TIMESTAMP")>>
    [] e.fn = "isnull" -> IF n # 1 THEN Err("arity") ELSE EmMP(e.args[1], ctx) \o <<KW("IS"), KW("NULL")>>
    [] e.fn = "isnotnull" -> IF n # 1 THEN Err("arity") ELSE EmMP(e.args[1], ctx) \o <<KW("IS"), KW("NOT"), KW("NULL")>>
    [] e.fn = "strcat" -> IF n = 0 THEN Err("arity") ELSE EmConcat(e.args, ctx, 1)
    [] e.fn = "count" -> IF n # 0 THEN Err("arity") ELSE <<ST("id", "count"), OP("("), OP(")")>>
    [] e.fn = "countif" -> IF n # 1 THEN Err("arity")
                           ELSE <<ST("id", "count"), OP("("), OP(")"), KW("FILTER"), OP("("), KW("WHERE")>>
                                \o Em(e.args[1], ctx) \o <<OP(")")>>
    [] e.fn \in {"iff", "iif"} -> IF n # 3 THEN Err("arity")
                                  ELSE <<KW("CASE"), KW("WHEN"), ST("id", "coalesce"), OP("(")>> \o Em(e.args[1], ctx)
                                       \o <<OP(","), KW("FALSE"), OP(")"), KW("THEN")>> \o Em(e.args[2], ctx)
                                       \o <<KW("ELSE")>> \o Em(e.args[3], ctx) \o <<KW("END")>>
    [] e.fn = "tolower" -> IF n # 1 THEN Err("arity") ELSE <<ST("id", "LOWER"), OP("(")>> \o Em(e.args[1], ctx) \o <<OP(")")>>
    [] e.fn = "toupper" -> IF n # 1 THEN Err("arity") ELSE <<ST("id", "UPPER"), OP("(")>> \o Em(e.args[1], ctx) \o <<OP(")")>>
    [] OTHER -> <<ST("id", e.fn), OP("(")>> \o EmCommaList(e.args, ctx, FALSE, 1) \o <<OP(")")>>

RECURSIVE EmParts(_, _, _)
EmParts(parts, ctx, i) ==
  IF i > Len(parts) THEN <<>>
  ELSE (IF i > 1 THEN <<OP(".")>> ELSE <<>>)
       \o (IF ~parts[i].quoted /\ parts[i].name \in {"$left", "$right"} /\ ctx.mode # "join"
           THEN Err("join alias outside join") ELSE <<ST("qid", parts[i].name)>>)
       \o EmParts(parts, ctx, i + 1)

BuiltinConst(n) == CASE n = "true" -> "TRUE" [] n = "false" -> "FALSE" [] n = "null" -> "NULL" [] OTHER -> ""

\* writeExpression
Em(e0, ctx) ==
  LET e == Unwrap(e0) IN
  CASE e.k = "QIdent" ->
         IF Len(e.parts) = 1 /\ ~e.parts[1].quoted /\ e.parts[1].name \in DOMAIN ctx.scope
         THEN ctx.scope[e.parts[1].name]
         ELSE IF Len(e.parts) = 1 /\ ~e.parts[1].quoted /\ BuiltinConst(e.parts[1].name) # ""
         THEN <<KW(BuiltinConst(e.parts[1].name))>>
         ELSE IF ctx.mode = "let" THEN Err("not a constant in let")
         ELSE EmParts(e.parts, ctx, 1)
    [] e.k = "Lit" -> IF e.kind = "Number" THEN <<ST("num", e.value)>> ELSE <<ST("str", e.value)>>
    [] e.k = "Un" -> <<OP(IF e.op = "Minus" THEN "-" ELSE "+")>> \o EmTight(e.x, ctx)
    [] e.k = "Bin" ->
         (CASE e.op = "Eq" ->
                 IF ctx.mode = "join"
                    /\ (Mentions(e.x, "$left") \/ Mentions(e.y, "$left"))
                    /\ (Mentions(e.x, "$right") \/ Mentions(e.y, "$right"))
                 THEN EmMP(e.x, ctx) \o <<OP("=")>> \o EmMP(e.y, ctx)
                 ELSE <<ST("id", "coalesce"), OP("(")>> \o EmMP(e.x, ctx) \o <<OP("=")>> \o EmMP(e.y, ctx)
                      \o <<OP(","), KW("FALSE"), OP(")")>>
            [] e.op = "NE" -> <<ST("id", "coalesce"), OP("(")>> \o EmMP(e.x, ctx) \o <<OP("<>")>> \o EmMP(e.y, ctx)
                              \o <<OP(","), KW("FALSE"), OP(")")>>
            [] e.op = "CaseInsensitiveEq" ->
                 <<ST("id", "lower"), OP("(")>> \o Em(e.x, ctx) \o <<OP(")"), OP("="), ST("id", "lower"), OP("(")>>
                 \o Em(e.y, ctx) \o <<OP(")")>>
            [] e.op = "CaseInsensitiveNE" ->
                 <<ST("id", "lower"), OP("(")>> \o Em(e.x, ctx) \o <<OP(")"), OP("<>"), ST("id", "lower"), OP("(")>>
                 \o Em(e.y, ctx) \o <<OP(")")>>
            [] OTHER -> EmMP(e.x, ctx) \o <<BinSql(e.op)>> \o EmMP(e.y, ctx))
    [] e.k = "In" -> EmMP(e.x, ctx) \o <<KW("IN"), OP("(")>> \o EmCommaList(e.vals, ctx, TRUE, 1) \o <<OP(")")>>
    [] e.k = "Index" -> EmTight(e.x, ctx) \o <<OP("[")>> \o Em(e.index, ctx) \o <<OP("]")>>
    [] e.k = "Call" -> IF KnownFn(e.fn) THEN EmCall(e, ctx)
                       ELSE <<ST("id", e.fn), OP("(")>> \o EmCommaList(e.args, ctx, FALSE, 1) \o <<OP(")")>>

\* the value of a let statement as stored in the scope
EmLetValue(e, scope) ==
  LET ctx == [mode |-> "let", scope |-> scope] IN
  IF Unwrap(e).k = "Un" THEN <<OP("(")>> \o Em(e, ctx) \o <<OP(")")>> ELSE EmMP(e, ctx)

EmptyFn == [x \in {} |-> <<>>]
DefaultCtx == [mode |-> "default", scope |-> EmptyFn]
=============================================================================
