--------------------------------- MODULE Cli ---------------------------------
(***************************************************************************)
(* The command-line loop (cmd/pql/main.go run) as a machine over abstract  *)
(* scripts, and what it must print (C16).                                  *)
(*                                                                         *)
(* A script is a sequence of statements of kind                            *)
(*   "LetOk" a let that compiles        "LetBad" a let that does not       *)
(*   "QOk"   a query that compiles      "QBad"   a query that does not     *)
(*   "Empty" white space / a comment between two semicolons                *)
(* A layout writes the script as text: each statement in one or two        *)
(* fragments (a line break inside it), a semicolon after every statement   *)
(* but possibly the last, and line breaks / blank lines between them.      *)
(* Text is a sequence of symbols [t |-> "frag", s, part, of], ";" , "NL".  *)
(*                                                                         *)
(*   CliRef   what the property demands, on the script alone               *)
(*   Machine  the line loop: append the line, split at the semicolon       *)
(*            tokens, handle every complete statement, keep the rest; at   *)
(*            end of input handle what is pending                          *)
(*                                                                         *)
(* Under-specified and therefore parameters of both (EmptyFails,           *)
(* FinalLetFails): whether an empty statement between semicolons and an    *)
(* unterminated final let count as failures.  The harness accepts both.    *)
(***************************************************************************)
EXTENDS Integers, Sequences, FiniteSets, TLC, Json

CONSTANTS MaxStmts, EmptyFails, FinalLetFails,
          PreludeAtEof    \* FALSE reproduces the pinned defect (negative control)

Kinds == {"LetOk", "LetBad", "QOk", "QBad", "Empty"}
Frag(s, part, of) == [t |-> "frag", s |-> s, part |-> part, of |-> of]
Semi == [t |-> ";"]
NL == [t |-> "NL"]

---------------------------------------------------------------------------
(* choice tree: <<kind, frags, separator>> per statement                   *)
(* separator after a statement that is not the last: ";" + one of          *)
(*   "same" (next statement on the same line) "nl" "blank" (an empty line) *)
(* after the last: "semi-nl" "semi" "nl" "eof"                             *)

VARIABLE ch
LastSep == {"semi-nl", "semi", "bare-nl", "eof"}
MidSep == {"same", "nl", "blank"}

NStmts(c) == Len(c) \div 3
Closed(c) == Len(c) % 3 = 0 /\ Len(c) > 0 /\ c[Len(c)] \in LastSep
Choices(c) ==
  IF Closed(c) THEN {}
  ELSE CASE Len(c) % 3 = 0 -> Kinds
         [] Len(c) % 3 = 1 -> IF c[Len(c)] = "Empty" THEN {1} ELSE {1, 2}
         [] Len(c) % 3 = 2 -> IF NStmts(c) + 1 >= MaxStmts THEN LastSep ELSE LastSep \cup MidSep
Complete(c) == Closed(c)

Kind(c, i) == c[3 * (i - 1) + 1]
Parts(c, i) == c[3 * (i - 1) + 2]
Sep(c, i) == c[3 * (i - 1) + 3]
Script(c) == [i \in 1..NStmts(c) |-> Kind(c, i)]

RECURSIVE TextFrom(_, _)
TextFrom(c, i) ==
  IF i > NStmts(c) THEN <<>>
  ELSE (IF Parts(c, i) = 1 THEN <<Frag(i, 1, 1)>> ELSE <<Frag(i, 1, 2), NL, Frag(i, 2, 2)>>)
       \o (CASE Sep(c, i) = "same" -> <<Semi>>
             [] Sep(c, i) = "nl" -> <<Semi, NL>>
             [] Sep(c, i) = "blank" -> <<Semi, NL, NL>>
             [] Sep(c, i) = "semi-nl" -> <<Semi, NL>>
             [] Sep(c, i) = "semi" -> <<Semi>>
             [] Sep(c, i) = "bare-nl" -> <<NL>>
             [] Sep(c, i) = "eof" -> <<>>)
       \o TextFrom(c, i + 1)
Text(c) == TextFrom(c, 1)
LastTerminated(c) == Sep(c, NStmts(c)) \in {"semi-nl", "semi"}

---------------------------------------------------------------------------
(* reference                                                               *)

\* result: [out |-> <<[q, prelude]>>, fails |-> n]
RECURSIVE RefFrom(_, _, _, _, _)
RefFrom(script, i, lastTerm, prelude, acc) ==
  IF i > Len(script) THEN acc
  ELSE LET k == script[i]
           final == i = Len(script) /\ ~lastTerm
       IN CASE k = "LetOk" -> IF final /\ FinalLetFails
                              THEN RefFrom(script, i + 1, lastTerm, prelude, [acc EXCEPT !.fails = @ + 1])
                              ELSE RefFrom(script, i + 1, lastTerm, Append(prelude, i), acc)
            [] k = "QOk" -> RefFrom(script, i + 1, lastTerm, prelude, [acc EXCEPT !.out = Append(@, [q |-> i, prelude |-> prelude])])
            [] k \in {"LetBad", "QBad"} -> RefFrom(script, i + 1, lastTerm, prelude, [acc EXCEPT !.fails = @ + 1])
            [] k = "Empty" -> RefFrom(script, i + 1, lastTerm, prelude,
                                      IF EmptyFails /\ ~final THEN [acc EXCEPT !.fails = @ + 1] ELSE acc)
CliRef(c) == RefFrom(Script(c), 1, LastTerminated(c), <<>>, [out |-> <<>>, fails |-> 0])

---------------------------------------------------------------------------
(* the machine                                                             *)

\* lines of the text: split at NL; a trailing piece without NL is a line too (unless empty)
RECURSIVE LinesFrom(_, _, _)
LinesFrom(txt, i, cur) ==
  IF i > Len(txt) THEN (IF cur = <<>> THEN <<>> ELSE <<cur>>)
  ELSE IF txt[i] = NL THEN <<cur>> \o LinesFrom(txt, i + 1, <<>>)
  ELSE LinesFrom(txt, i + 1, Append(cur, txt[i]))
Lines(txt) == LinesFrom(txt, 1, <<>>)

\* SplitStatements on symbols: pieces between semicolons
RECURSIVE PiecesFrom(_, _, _)
PiecesFrom(p, i, cur) ==
  IF i > Len(p) THEN <<cur>>
  ELSE IF p[i] = Semi THEN <<cur>> \o PiecesFrom(p, i + 1, <<>>)
  ELSE PiecesFrom(p, i + 1, Append(cur, p[i]))
Pieces(p) == PiecesFrom(p, 1, <<>>)

\* which statement a piece is, and whether all its fragments are there in order
StmtOf(piece) == IF piece = <<>> THEN 0 ELSE piece[1].s
Intact(piece) == piece # <<>> /\ Len(piece) = piece[1].of /\ \A j \in DOMAIN piece : piece[j].s = piece[1].s /\ piece[j].part = j

\* st = [prelude, out, fails, broken]
Handle(st, piece, script, atEof) ==
  IF piece = <<>> THEN (IF atEof THEN st ELSE IF EmptyFails THEN [st EXCEPT !.fails = @ + 1] ELSE st)
  ELSE IF ~Intact(piece) THEN [st EXCEPT !.broken = TRUE]
  ELSE LET i == StmtOf(piece) k == script[i] IN
       CASE k = "Empty" -> IF atEof THEN st ELSE IF EmptyFails THEN [st EXCEPT !.fails = @ + 1] ELSE st
         [] k = "LetOk" -> IF atEof THEN (IF FinalLetFails THEN [st EXCEPT !.fails = @ + 1] ELSE [st EXCEPT !.prelude = Append(@, i)])
                           ELSE [st EXCEPT !.prelude = Append(@, i)]
         [] k = "LetBad" -> [st EXCEPT !.fails = @ + 1]
         [] k = "QOk" -> [st EXCEPT !.out = Append(@, [q |-> i, prelude |-> IF atEof /\ ~PreludeAtEof THEN <<>> ELSE st.prelude])]
         [] k = "QBad" -> [st EXCEPT !.fails = @ + 1]

RECURSIVE HandleAll(_, _, _, _)
HandleAll(st, pieces, i, script) ==
  IF i > Len(pieces) - 1 THEN st ELSE HandleAll(Handle(st, pieces[i], script, FALSE), pieces, i + 1, script)

\* one iteration of the scanner loop; ms = [st, pending]
ReadLine(ms, line, script) ==
  LET p == ms.pending \o line
      ps == Pieces(p)
  IN IF Len(ps) = 1 THEN [ms EXCEPT !.pending = p]
     ELSE [st |-> HandleAll(ms.st, ps, 1, script), pending |-> ps[Len(ps)]]

RECURSIVE RunLines(_, _, _, _)
RunLines(ms, lines, i, script) == IF i > Len(lines) THEN ms ELSE RunLines(ReadLine(ms, lines[i], script), lines, i + 1, script)

Machine(c) ==
  LET script == Script(c)
      ms0 == [st |-> [prelude |-> <<>>, out |-> <<>>, fails |-> 0, broken |-> FALSE], pending |-> <<>>]
      ms == RunLines(ms0, Lines(Text(c)), 1, script)
  IN Handle(ms.st, ms.pending, script, TRUE)

---------------------------------------------------------------------------
Init == ch = <<>>
Next == \E x \in Choices(ch) : ch' = Append(ch, x)

\* C16 at design level: whatever the layout, the loop prints what the script demands
MachineMeetsRef ==
  Complete(ch) =>
    LET m == Machine(ch) r == CliRef(ch) IN
    /\ ~m.broken
    /\ m.out = r.out
    /\ m.fails = r.fails

EmitCase ==
  Complete(ch) =>
    LET r == CliRef(ch) IN
    PrintT("CASE " \o ToJson([script |-> Script(ch), text |-> Text(ch), ch |-> ch, out |-> r.out,
                              realFails |-> Cardinality({i \in DOMAIN Script(ch) : Script(ch)[i] \in {"LetBad", "QBad"}}),
                              hasEmpty |-> \E i \in 1..(Len(Script(ch)) - (IF LastTerminated(ch) THEN 0 ELSE 1)) : Script(ch)[i] = "Empty",
                              finalLet |-> ~LastTerminated(ch) /\ Script(ch)[Len(Script(ch))] = "LetOk"]))
=============================================================================
