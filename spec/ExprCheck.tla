------------------------------ MODULE ExprCheck ------------------------------
(***************************************************************************)
(* C01 (and the expression part of C06).                                   *)
(*                                                                         *)
(* Design level: for every expression of the generator families, the       *)
(* writer model's SQL (ExprEmit) read back with the SQL reader under both  *)
(* precedence tables means what the PQL expression means on every row.     *)
(*                                                                         *)
(* Trace validation: each record is one observed pql.Compile of a program  *)
(* whose designated expression e sits at position pos; the real SQL is     *)
(* read as a statement, the expression in that slot is evaluated against   *)
(* EvalP(e) on every row.                                                  *)
(***************************************************************************)
EXTENDS GenProg, ExprEmit, ExprSem, Json, IOUtils

RECURSIVE ColsOf(_)
UnionOver(es) == UNION {ColsOf(es[i]) : i \in DOMAIN es}
ColsOf(e) ==
  CASE e.k = "QIdent" -> IF Len(e.parts) = 1 /\ e.parts[1].name \notin {"true", "false", "null"} THEN {e.parts[1].name}
                         ELSE IF Len(e.parts) = 2 THEN {e.parts[1].name \o "." \o e.parts[2].name}   \* alias-qualified column
                         ELSE {}
    [] e.k = "Lit" -> {}
    [] e.k \in {"Un", "Paren"} -> ColsOf(e.x)
    [] e.k = "Bin" -> ColsOf(e.x) \cup ColsOf(e.y)
    [] e.k = "In" -> ColsOf(e.x) \cup UnionOver(e.vals)
    [] e.k = "Index" -> ColsOf(e.x) \cup ColsOf(e.index)
    [] e.k = "Call" -> UnionOver(e.args)
    [] OTHER -> {}

EmptyV == [x \in {} |-> Null]
\* Rows: instead of the full product over one big domain, the union of the full
\* products over four small domains, each aimed at one kind of difference:
\* NULL handling and typing, three-valued logic, integer comparison and
\* arithmetic, case-insensitive string comparison.  (Differences of grouping
\* or operand order between uninterpreted operators show on every row.)
Domains == << {Null, B(TRUE), I(1)}, {Null, B(TRUE), B(FALSE)}, {I(1), I(2)}, {S(<<"a">>), S(<<"A">>)} >>
PutV(f, n, v) == [k \in DOMAIN f \cup {n} |-> IF k = n THEN v ELSE f[k]]

\* lexical scoping (C06): parameters first, then the lets before the query in order,
\* each value a closed expression evaluated in the scope built so far
RECURSIVE FoldParams(_, _, _, _), FoldLets(_, _, _, _)
FoldParams(ps, i, scope, ph) ==
  IF i > Len(ps) THEN scope
  ELSE LET r == ReadExpr(ps[i].toks, "ch")
           v == IF r.ok THEN EvalS(r.v, [cols |-> EmptyV, scope |-> EmptyV, ph |-> ph]) ELSE Opq("unreadable", <<>>)
       IN FoldParams(ps, i + 1, PutV(scope, ps[i].n, v), ph)
FoldLets(ls, i, scope, ph) ==
  IF i > Len(ls) THEN scope
  ELSE FoldLets(ls, i + 1, PutV(scope, ls[i].n, EvalP(ls[i].x, [cols |-> EmptyV, scope |-> scope, ph |-> ph])), ph)
ScopeVals(sc, ph) == FoldLets(sc.lets, 1, FoldParams(sc.params, 1, EmptyV, ph), ph)

PhNames(sc) == { sc.params[i].toks[1].v : i \in { j \in DOMAIN sc.params : Len(sc.params[j].toks) = 1 /\ sc.params[j].toks[1].k = "ph" } }

RowsSc(cs, sc) ==
  UNION { { [cols |-> f, ph |-> g, scope |-> ScopeVals(sc, g)] : f \in [cs -> Domains[d]], g \in [PhNames(sc) -> Domains[d]] }
          : d \in DOMAIN Domains }
NoSc == [params |-> <<>>, lets |-> <<>>]
RowsFor(cs, scope, ph) == RowsSc(cs, NoSc)

\* no sign directly followed by a sign: "--" opens a comment
PrefixPos(ts, i) ==
  i = 1 \/ (ts[i - 1].k = "op" /\ ts[i - 1].v \notin {")", "]"})
        \/ (ts[i - 1].k = "kw" /\ ts[i - 1].v \notin {"TRUE", "FALSE", "NULL", "END", "CURRENT_TIMESTAMP"})
NoSignFusion(ts) ==
  \A i \in 1..(Len(ts) - 1) : ~(ts[i] = OP("-") /\ ts[i + 1] = OP("-") /\ PrefixPos(ts, i))

\* join conditions are compared by truth (see DESIGN.md, C03)
SameAt(pos, a, b) == IF pos \in {"joinOn", "joinOn2", "joinNested"} THEN TruthNF(a) = TruthNF(b) ELSE a = b

Tables == {"ch", "pg"}

SameMeaning(e, sqlTree, rows) == \A row \in rows : EvalS(sqlTree, row) = EvalP(e, row)

\* the scope as the compiler holds it: name -> SQL tokens
RECURSIVE FoldLetToks(_, _, _)
FoldLetToks(ls, i, scope) ==
  IF i > Len(ls) THEN scope ELSE FoldLetToks(ls, i + 1, PutV(scope, ls[i].n, EmLetValue(ls[i].x, scope)))
RECURSIVE FoldParamToks(_, _, _)
FoldParamToks(ps, i, scope) == IF i > Len(ps) THEN scope ELSE FoldParamToks(ps, i + 1, PutV(scope, ps[i].n, ps[i].toks))
ScopeToks(sc) == FoldLetToks(sc.lets, 1, FoldParamToks(sc.params, 1, EmptyFn))

WithToks(sc) == [sc EXCEPT !.params = [i \in DOMAIN sc.params |-> [n |-> sc.params[i].n, toks |-> <<ST("ph", sc.params[i].s)>>]]]
CaseSc == IF Family = "scope" THEN WithToks(ScopeSc(ch)) ELSE NoSc

ExprDesignOK ==
  (Complete(ch) /\ Family \in ExprFamilies) =>
    LET e == ExprOf(Family, ch)
        pos == PosOf(Family, ch)
        sc == CaseSc
        ctx == [mode |-> IF pos \in {"joinOn", "joinOn2", "joinNested"} THEN "join" ELSE "default", scope |-> ScopeToks(sc)]
        ts == Em(e, ctx)
    IN /\ ~HasErr(ts)
       /\ NoSignFusion(ts)
       /\ Em(ParenAll(e), ctx) = ts          \* redundant parentheses never change the output
       /\ LET rc == ReadExpr(ts, "ch")
              rp == ReadExpr(ts, "pg")
              rows == RowsSc(ColsOf(e) \cup {"n"}, sc)
          IN /\ rc.ok /\ rp.ok
             /\ \A row \in rows : SameAt(pos, EvalS(rc.v, row), EvalP(e, row))
             /\ (rp.v # rc.v => \A row \in rows : SameAt(pos, EvalS(rp.v, row), EvalP(e, row)))

---------------------------------------------------------------------------
(* trace validation                                                        *)

Trace == IF "TRACE_FILE" \in DOMAIN IOEnv THEN ndJsonDeserialize(IOEnv.TRACE_FILE) ELSE <<>>

VARIABLE l

\* where the designated expression sits in the statement pql produces for the
\* one-operator programs of GenProg!InPos / the expression families
\* all join sources of a statement in the order of definition (CTEs first, sub-selects before their readers)
RECURSIVE JoinsOfSrc(_)
JoinsOfSrc(src) ==
  CASE src.k = "table" -> <<>>
    [] src.k = "sub" -> JoinsOfSrc(src.sel.from)
    [] src.k = "join" -> JoinsOfSrc(src.l) \o JoinsOfSrc(src.r) \o <<src>>
AllJoins(st) ==
  LET RECURSIVE C(_)
      C(i) == IF i > Len(st.ctes) THEN <<>> ELSE JoinsOfSrc(st.ctes[i].sel.from) \o C(i + 1)
  IN C(1) \o JoinsOfSrc(st.main.from)
HasExtraCond(j) == j.on.k = "Bin" /\ j.on.op = "AND"
\* all selects of a statement in the order of definition
RECURSIVE SelsOfSrc(_), SelsOfSel(_)
SelsOfSrc(src) ==
  CASE src.k = "table" -> <<>>
    [] src.k = "sub" -> SelsOfSel(src.sel)
    [] src.k = "join" -> SelsOfSrc(src.l) \o SelsOfSrc(src.r)
SelsOfSel(sel) == SelsOfSrc(sel.from) \o <<sel>>
AllSels(st) ==
  LET RECURSIVE C(_)
      C(i) == IF i > Len(st.ctes) THEN <<>> ELSE SelsOfSel(st.ctes[i].sel) \o C(i + 1)
  IN C(1) \o SelsOfSel(st.main)
HasWhere(sel) == sel.where # SNone
HasItemP(sel) == \E i \in DOMAIN sel.items : sel.items[i].as = "p"

Slot(st, pos) ==
  LET m == st.main IN
  CASE pos = "where" -> m.where
    [] pos = "paren" -> m.where
    [] pos \in {"project", "projectBare"} -> m.items[1].e
    [] pos \in {"extendNamed", "extendBare"} -> m.items[2].e
    [] pos \in {"sumAgg", "sumAggBare"} /\ Len(m.items) >= 2 -> m.items[2].e
    [] pos \in {"sumAggBare", "sumKey", "sumKeyBare"} -> m.items[1].e
    [] pos = "sort" -> m.order[1].e
    [] pos = "sort2" -> m.order[2].e
    [] pos \in {"take", "topN"} -> m.limit
    [] pos = "topBy" -> m.order[1].e
    [] pos = "joinOn" -> m.from.on
    [] pos = "joinOn2" -> m.from.on.y
    [] pos = "joinRightWhere2" -> LET ss == SelectSeq(AllSels(st), HasWhere) IN IF ss = <<>> THEN SNone ELSE ss[1].where
    [] pos = "joinRightExtend2" -> LET ss == SelectSeq(AllSels(st), HasItemP) IN
                                   IF ss = <<>> THEN SNone
                                   ELSE LET sel == ss[1] IN sel.items[CHOOSE i \in DOMAIN sel.items : sel.items[i].as = "p"].e
    [] pos = "joinNested" -> LET js == SelectSeq(AllJoins(st), HasExtraCond) IN IF js = <<>> THEN SNone ELSE js[1].on.y
    [] pos = "let" -> m.where.args[1].y
    [] pos = "arg" -> m.where.args[2]
    [] pos = "index" -> m.where.index
    [] pos = "inlist" -> m.where.vals[1]
    [] OTHER -> SNone


\* a bare name k in a join condition means $left.k == $right.k
JoinCond(e) ==
  IF e.k = "QIdent" /\ Len(e.parts) = 1 /\ ~e.parts[1].quoted /\ e.parts[1].name \notin {"true", "false", "null"}
  THEN Bin("Eq", Qual("$left", e.parts[1].name), Qual("$right", e.parts[1].name)) ELSE e
\* admissible readings: a parenthesised bare name "(k)" after `on` is under-specified
\* (a bare name by C01's "parentheses only change grouping", an ordinary boolean
\* column by the letter of the join rule); both readings are accepted
Meanings(pos, e) ==
  IF pos \in {"joinOn", "joinOn2", "joinNested"}
  THEN IF e.k = "Paren" THEN {JoinCond(Unwrap(e)), Unwrap(e)} ELSE {JoinCond(e)}
  ELSE {e}

\* status "ok" | "unreadable" | "noslot" | "differs" (with the set of distinguishing rows)
Judge(rec, tbl) ==
  LET st == ReadStmt(rec.sql, tbl) IN
  IF ~st.ok THEN [status |-> "unreadable", rows |-> {}]
  ELSE LET s == Slot(st.v, rec.pos) IN
       IF s = SNone THEN [status |-> "noslot", rows |-> {}]
       ELSE LET Bad(e) == { row \in RowsSc(ColsOf(e) \cup {"n"}, rec.sc) : ~SameAt(rec.pos, EvalS(s, row), EvalP(e, row)) }
                ms == Meanings(rec.pos, rec.e)
            IN IF \E e \in ms : Bad(e) = {} THEN [status |-> "ok", rows |-> {}]
               ELSE [status |-> "differs", rows |-> Bad(CHOOSE e \in ms : TRUE)]

Verdict(rec) ==
  LET sc == ReadStmt(rec.sql, "ch")
      sp == ReadStmt(rec.sql, "pg")
      jc == Judge(rec, "ch")
      jp == IF sc.ok /\ sp.ok /\ sc.v = sp.v THEN jc ELSE Judge(rec, "pg")   \* same reading: judged once
      j == IF jc.status # "ok" THEN jc ELSE jp
  IN [id |-> rec.id,
      ok |-> j.status = "ok",
      why |-> CASE j.status = "ok" -> ""
                [] j.status = "unreadable" -> "the SQL does not read as a statement"
                [] j.status = "noslot" -> "no expression in the slot"
                [] OTHER -> "the SQL expression has another value than the PQL expression",
      row |-> IF j.status # "differs" THEN <<>>
              ELSE LET r == CHOOSE r \in j.rows : TRUE IN [cols |-> r.cols, ph |-> r.ph],
      table |-> IF jc.status # "ok" THEN "ch" ELSE IF jp.status # "ok" THEN "pg" ELSE ""]

DesignInit == Init /\ l = 0
DesignNext == Next /\ UNCHANGED l

TraceInit == l = 1 /\ ch = <<>>
TraceNext ==
  /\ l <= Len(Trace)
  /\ PrintT("TV " \o ToJson(Verdict(Trace[l])))
  /\ l' = l + 1
  /\ UNCHANGED ch
TraceDone == TLCGet("stats").diameter - 1 = Len(Trace)
=============================================================================
