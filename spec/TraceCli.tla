------------------------------ MODULE TraceCli ------------------------------
(***************************************************************************)
(* Trace validation for the command (code -> model).  Each line is one run *)
(* of the cmd/pql binary on a case of CliInput.tla: the script and layout  *)
(* choices, the channel choices, and what was observed (which statement's  *)
(* SQL, with which lets in scope, each block of standard output is; exit   *)
(* status; number of lines on standard error).  The verdict is IoJudge.    *)
(***************************************************************************)
EXTENDS CliInput, IOUtils

Trace == ndJsonDeserialize(IOEnv.TRACE_FILE)

VARIABLE l

TraceInit == l = 1 /\ ch = <<>> /\ io = <<>>
TraceNext ==
  /\ l <= Len(Trace)
  /\ PrintT("TV " \o ToJson([id |-> Trace[l].id, verdict |-> IoJudge(Trace[l].ch, Trace[l].io, Trace[l].obs)]))
  /\ l' = l + 1
  /\ UNCHANGED <<ch, io>>
TraceDone == TLCGet("stats").diameter - 1 = Len(Trace)
=============================================================================
