------------------------------- MODULE SqlLex -------------------------------
(***************************************************************************)
(* The lexical rules of the target SQL, over the character classes of      *)
(* Chars.tla, under two rule sets:                                         *)
(*   "std"  standard SQL: inside '...' a quote is written '' ; inside      *)
(*          "..." a double quote is written "" ; a backslash is an         *)
(*          ordinary character                                             *)
(*   "ch"   ClickHouse: additionally a backslash inside '...', "..." and   *)
(*          `...` escapes the next character (\n newline, \t tab, \0 NUL,  *)
(*          any other character stands for itself)                         *)
(* Both: -- line comments, /* block comments */.                           *)
(*                                                                         *)
(* and the quoting functions of pql.go (quoteSQLString, quoteIdentifier)   *)
(* as functions on class sequences.  C04 at design level: for every        *)
(* content, the quoted text is exactly one token under both rule sets,     *)
(* whatever surrounds it, and decodes to the content under the target      *)
(* dialect's rules (under "std" up to the doubled backslashes).            *)
(*                                                                         *)
(* A token is [k, s, e, v]: kind "str" | "qid" | "word" | "num" | "op" |   *)
(* "cmt" | "bad", 0-based extent, value atoms as in PqlLexer (n >= 1: the  *)
(* character at position n; -1 newline; -2 tab; -3 NUL).                   *)
(***************************************************************************)
EXTENDS Integers, Sequences, FiniteSets, TLC, Json, Chars

CONSTANTS ContentAlphabet, MaxContent, EscapeBackslash, EmitLexCases

ST4(k, i, j, v) == [k |-> k, s |-> i - 1, e |-> j - 1, v |-> v]

RECURSIVE QScan(_, _, _, _, _)
\* scan a quoted token opened at position j-1 with quote class q; returns end (exclusive), closed?, atoms
QScan(s, j, q, dialect, acc) ==
  LET c == At(s, j) IN
  IF c = "EOF" THEN [end |-> j, ok |-> FALSE, v |-> acc]
  ELSE IF c = "BS" /\ dialect = "ch" THEN
    LET d == At(s, j + 1) IN
    IF d = "EOF" THEN [end |-> j + 1, ok |-> FALSE, v |-> acc]
    ELSE QScan(s, j + 2, q, dialect,
               Append(acc, IF d = "n" THEN -1 ELSE IF d = "t" THEN -2 ELSE IF d = "0" THEN -3 ELSE j + 1))
  ELSE IF c = q THEN
    IF At(s, j + 1) = q THEN QScan(s, j + 2, q, dialect, Append(acc, j + 1))
    ELSE [end |-> j + 1, ok |-> TRUE, v |-> acc]
  ELSE QScan(s, j + 1, q, dialect, Append(acc, j))

RECURSIVE LineEnd(_, _), BlockEnd(_, _)
LineEnd(s, j) == IF j > Len(s) \/ s[j] = "NL" THEN j ELSE LineEnd(s, j + 1)
BlockEnd(s, j) == IF j > Len(s) THEN 0 ELSE IF s[j] = "STAR" /\ At(s, j + 1) = "SLASH" THEN j + 2 ELSE BlockEnd(s, j + 1)

WordChars == Alpha \cup Digits \cup {"US"}

SqlTokAt(s, i, dialect) ==
  LET c == s[i] d == At(s, i + 1) IN
  CASE c = "MINUS" /\ d = "MINUS" -> ST4("cmt", i, LineEnd(s, i + 2), <<>>)
    [] c = "SLASH" /\ d = "STAR" -> LET e == BlockEnd(s, i + 2) IN
                                    IF e = 0 THEN ST4("bad", i, Len(s) + 1, <<>>) ELSE ST4("cmt", i, e, <<>>)
    [] c \in {"SQ", "DQ", "BT"} ->
         LET r == QScan(s, i + 1, c, dialect, <<>>) IN
         IF r.ok THEN ST4(IF c = "SQ" THEN "str" ELSE "qid", i, r.end, r.v) ELSE ST4("bad", i, r.end, <<>>)
    [] c \in Alpha \cup {"US"} -> LET n == 1 + Run(s, i + 1, WordChars) IN ST4("word", i, i + n, Range(i, i + n - 1))
    [] c \in Digits -> LET n == Run(s, i, Digits \cup {"DOT"}) IN ST4("num", i, i + n, Range(i, i + n - 1))
    [] c \in {"DOT", "COMMA", "LP", "RP", "LB", "RB", "PLUS", "MINUS", "STAR", "SLASH", "PCT", "EQ", "LT", "GT",
              "SEMI", "PIPE", "BANG", "TILDE"} -> ST4("op", i, i + 1, <<>>)
    [] OTHER -> ST4("bad", i, i + 1, <<>>)

RECURSIVE SqlLexFrom(_, _, _)
SqlLexFrom(s, i, dialect) ==
  IF i > Len(s) THEN <<>>
  ELSE IF s[i] \in Spaces THEN SqlLexFrom(s, i + 1, dialect)
  ELSE LET t == SqlTokAt(s, i, dialect) IN <<t>> \o SqlLexFrom(s, t.e + 1, dialect)

SqlLex(s, dialect) == SqlLexFrom(s, 1, dialect)

---------------------------------------------------------------------------
(* quoting as pql.go does it                                               *)

RECURSIVE QuoteBody(_, _, _)
\* body of a quoted token: the quote class doubled; backslash doubled when EscapeBackslash
\* returns <<text, origin>> where origin[k] = index in content that produced text[k]
QuoteBody(content, i, q) ==
  IF i > Len(content) THEN <<>>
  ELSE (IF content[i] = q THEN <<q, q>>
        ELSE IF content[i] = "BS" /\ EscapeBackslash THEN <<"BS", "BS">>
        ELSE <<content[i]>>) \o QuoteBody(content, i + 1, q)

QuoteString(content) == <<"SQ">> \o QuoteBody(content, 1, "SQ") \o <<"SQ">>
QuoteIdent(content) == <<"DQ">> \o QuoteBody(content, 1, "DQ") \o <<"DQ">>

\* decoded value as class sequence
Decode(s, t) == [n \in DOMAIN t.v |-> IF t.v[n] >= 1 THEN s[t.v[n]] ELSE IF t.v[n] = -1 THEN "NL" ELSE IF t.v[n] = -2 THEN "TAB" ELSE "NUL"]

RECURSIVE DoubleBS(_)
DoubleBS(c) == IF c = <<>> THEN <<>> ELSE (IF Head(c) = "BS" THEN <<"BS", "BS">> ELSE <<Head(c)>>) \o DoubleBS(Tail(c))

Before == <<"L", "EQ">>         \* x =
After == <<"L", "L", "SEMI">>   \* AS y ;   (two words and the terminator)

QuotedOK(content, quoted, kind) ==
  LET text == Before \o quoted \o After IN
  \A dialect \in {"std", "ch"} :
    LET ts == SqlLex(text, dialect) IN
    /\ Len(ts) = 5
    /\ ts[1].k = "word" /\ ts[2].k = "op" /\ ts[3].k = kind /\ ts[4].k = "word" /\ ts[5].k = "op"
    /\ ts[3].s = 2 /\ ts[3].e = 2 + Len(quoted)
    /\ Decode(text, ts[3]) = (IF dialect = "ch" \/ ~EscapeBackslash THEN content ELSE DoubleBS(content))

---------------------------------------------------------------------------
VARIABLE content
Init == content = <<>>
Next == Len(content) < MaxContent /\ \E c \in ContentAlphabet : content' = Append(content, c)

\* C04, design level
StringsAreData == QuotedOK(content, QuoteString(content), "str")
NamesAreData == QuotedOK(content, QuoteIdent(content), "qid")

\* conformance cases for the harness's SQL lexer and contents for the replay
LexCase ==
  EmitLexCases =>
    LET text == Before \o QuoteString(content) \o <<"WS">> \o QuoteIdent(content) \o After IN
    PrintT("CASE " \o ToJson([content |-> content, src |-> text, std |-> SqlLex(text, "std"), ch |-> SqlLex(text, "ch")]))
=============================================================================
