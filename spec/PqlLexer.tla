----------------------------- MODULE PqlLexer -----------------------------
(***************************************************************************)
(* The PQL scanner (parser/lex.go), twice:                                 *)
(*                                                                         *)
(*  LexRef     declarative: at every position outside white space and      *)
(*             comments the token is the longest lexeme of the documented  *)
(*             classes, given in closed form (runs of character classes). *)
(*  machine    operational: the rune-by-rune scanner with its single-slot  *)
(*             back-up (next / prev / setPos), one step function per       *)
(*             sub-scanner state.                                          *)
(*                                                                         *)
(* The input is chosen inside the model: the machine demands the next      *)
(* character (Feed) or the end of input (Close) lazily, so the reachable   *)
(* terminal states are exactly all strings over Alphabet up to MaxLen.     *)
(*                                                                         *)
(* A token is [k, s, e, v]: kind (Go's TokenKind name without "Token"),    *)
(* 0-based half-open extent [s,e) in characters, and the value as a        *)
(* sequence of atoms: n >= 1 "the character at position n of the source",  *)
(* 0 "the character 0", -1 newline, -2 tab, -16 "decimal spelling of the   *)
(* hexadecimal digits that follow" (numeric conversion is done by the      *)
(* harness with math/big; TLC integers are 32 bit).                        *)
(***************************************************************************)
EXTENDS Integers, Sequences, FiniteSets, TLC, Json, Chars

CONSTANTS Alphabet, MaxLen, EmitCases

---------------------------------------------------------------------------
(* Shared value computations (normalizeNumberValue, keyword table)         *)

RECURSIVE DropZeros(_, _)
DropZeros(s, ps) == IF ps # <<>> /\ s[Head(ps)] = "0" THEN DropZeros(s, Tail(ps)) ELSE ps

NormNumber(s, ps) ==
  LET r == DropZeros(s, ps) IN
  IF r = <<>> THEN <<0>>
  ELSE IF s[Head(r)] \in {"DOT", "E"} THEN <<0>> \o r ELSE r

KeywordKind(text) ==
  CASE text = <<"a", "n", "d">> -> "And"
    [] text = <<"o", "r">>      -> "Or"
    [] text = <<"i", "n">>      -> "In"
    [] text = <<"b", "y">>      -> "By"
    [] OTHER                    -> "Identifier"

SingleKind(c) ==
  CASE c = "COMMA" -> "Comma" [] c = "PIPE" -> "Pipe" [] c = "LP" -> "LParen"
    [] c = "RP" -> "RParen"   [] c = "LB" -> "LBracket" [] c = "RB" -> "RBracket"
    [] c = "PLUS" -> "Plus"   [] c = "MINUS" -> "Minus" [] c = "STAR" -> "Star"
    [] c = "PCT" -> "Mod"     [] c = "SEMI" -> "Semi"   [] OTHER -> "none"

MaxHexDigits == 16   \* more significant hex digits than this do not fit 64 bits

---------------------------------------------------------------------------
(* Declarative reference                                                   *)

T(k, i, j, v) == [k |-> k, s |-> i - 1, e |-> j - 1, v |-> v]  \* 1-based [i,j) -> 0-based [s,e)

ExpLen(s, p) ==
  IF At(s, p) = "E"
  THEN LET q == IF At(s, p + 1) \in {"PLUS", "MINUS"} THEN p + 2 ELSE p + 1
           d == Run(s, q, Digits)
       IN IF d > 0 THEN (q - p) + d ELSE 0
  ELSE 0

\* D+ [ . D* ] [ exponent ]
DecimalTok(s, i) ==
  LET n1 == Run(s, i, Digits)
      f  == IF At(s, i + n1) = "DOT" THEN 1 + Run(s, i + n1 + 1, Digits) ELSE 0
      x  == ExpLen(s, i + n1 + f)
      j  == i + n1 + f + x
  IN T("Number", i, j, NormNumber(s, Range(i, j - 1)))

\* . D+ [ exponent ]
DotTok(s, i) ==
  LET n == Run(s, i + 1, Digits) IN
  IF n = 0 THEN T("Dot", i, i + 1, <<>>)
  ELSE LET x == ExpLen(s, i + 1 + n)
           j == i + 1 + n + x
       IN T("Number", i, j, NormNumber(s, Range(i, j - 1)))

\* 0 (x|X) H+
HexTok(s, i) ==
  LET h == Run(s, i + 2, HexDigits) IN
  IF h = 0 THEN T("Error", i, i + 2, <<>>)
  ELSE IF Len(DropZeros(s, Range(i + 2, i + 1 + h))) > MaxHexDigits
       THEN T("Error", i, i + 2 + h, <<>>)
       ELSE T("Number", i, i + 2 + h, <<-16>> \o Range(i + 2, i + 1 + h))

RECURSIVE StrScan(_, _, _, _)
\* j: position examined; result: exclusive end, whether closed, value atoms
StrScan(s, j, q, acc) ==
  LET c == At(s, j) IN
  IF c = "EOF" THEN [end |-> j, ok |-> FALSE, v |-> acc]
  ELSE IF c = q THEN [end |-> j + 1, ok |-> TRUE, v |-> acc]
  ELSE IF c = "NL" THEN [end |-> j, ok |-> FALSE, v |-> acc]
  ELSE IF c = "BS" THEN
    LET d == At(s, j + 1) IN
    IF d = "EOF" \/ d = "NL" THEN [end |-> j + 1, ok |-> FALSE, v |-> acc]
    ELSE StrScan(s, j + 2, q, Append(acc, IF d = "n" THEN -1 ELSE IF d = "t" THEN -2 ELSE j + 1))
  ELSE StrScan(s, j + 1, q, Append(acc, j))

StringTok(s, i) ==
  LET r == StrScan(s, i + 1, s[i], <<>>) IN
  IF r.ok THEN T("String", i, r.end, r.v) ELSE T("Error", i, r.end, <<>>)

RECURSIVE QIdScan(_, _, _)
QIdScan(s, j, acc) ==
  LET c == At(s, j) IN
  IF c = "EOF" \/ c = "NL" THEN [end |-> j, ok |-> FALSE, v |-> acc]
  ELSE IF c = "BT" THEN
    IF At(s, j + 1) = "BT" THEN QIdScan(s, j + 2, Append(acc, j + 1))
    ELSE [end |-> j + 1, ok |-> TRUE, v |-> acc]
  ELSE QIdScan(s, j + 1, Append(acc, j))

QIdentTok(s, i) ==
  LET r == QIdScan(s, i + 1, <<>>) IN
  IF r.ok THEN T("QuotedIdentifier", i, r.end, r.v) ELSE T("Error", i, r.end, <<>>)

IdentTok(s, i) ==
  LET n  == 1 + Run(s, i + 1, IdentCont)
      k  == KeywordKind(SubSeq(s, i, i + n - 1))
  IN T(k, i, i + n, IF k = "Identifier" THEN Range(i, i + n - 1) ELSE <<>>)

TokAt(s, i) ==
  LET c == s[i]
      d == At(s, i + 1)
  IN CASE c \in IdentStart -> IdentTok(s, i)
       [] c = "0" /\ d = "X" -> HexTok(s, i)
       [] c \in Digits /\ ~(c = "0" /\ d = "X") -> DecimalTok(s, i)
       [] c = "DOT" -> DotTok(s, i)
       [] SingleKind(c) # "none" -> T(SingleKind(c), i, i + 1, <<>>)
       [] c = "EQ" -> IF d = "EQ" THEN T("Eq", i, i + 2, <<>>)
                      ELSE IF d = "TILDE" THEN T("CaseInsensitiveEq", i, i + 2, <<>>)
                      ELSE T("Assign", i, i + 1, <<>>)
       [] c = "BANG" -> IF d = "EQ" THEN T("NE", i, i + 2, <<>>)
                        ELSE IF d = "TILDE" THEN T("CaseInsensitiveNE", i, i + 2, <<>>)
                        ELSE T("Error", i, i + 1, <<>>)
       [] c = "LT" -> IF d = "EQ" THEN T("LE", i, i + 2, <<>>) ELSE T("LT", i, i + 1, <<>>)
       [] c = "GT" -> IF d = "EQ" THEN T("GE", i, i + 2, <<>>) ELSE T("GT", i, i + 1, <<>>)
       [] c = "SLASH" -> T("Slash", i, i + 1, <<>>)
       [] c \in {"SQ", "DQ"} -> StringTok(s, i)
       [] c = "BT" -> QIdentTok(s, i)
       [] OTHER -> T("Error", i, i + 1, <<>>)

RECURSIVE CommentEnd(_, _)
CommentEnd(s, j) == IF j > Len(s) THEN j ELSE IF s[j] = "NL" THEN j + 1 ELSE CommentEnd(s, j + 1)

RECURSIVE LexFrom(_, _)
LexFrom(s, i) ==
  IF i > Len(s) THEN <<>>
  ELSE IF s[i] \in Spaces THEN LexFrom(s, i + 1)
  ELSE IF s[i] = "SLASH" /\ At(s, i + 1) = "SLASH" THEN LexFrom(s, CommentEnd(s, i + 2))
  ELSE LET t == TokAt(s, i) IN <<t>> \o LexFrom(s, t.e + 1)

LexRef(s) == LexFrom(s, 1)

\* gaps between tokens: only white space and comments (declaratively: the text
\* of a gap, scanned alone, has no tokens)
ShiftTok(t, d) == [t EXCEPT !.s = t.s - d, !.e = t.e - d,
                            !.v = [n \in DOMAIN t.v |-> IF t.v[n] >= 1 THEN t.v[n] - d ELSE t.v[n]]]

---------------------------------------------------------------------------
(* Statement splitting (SplitStatements): pieces as 0-based extents        *)

SemiPositions(toks) == { n \in DOMAIN toks : toks[n].k = "Semi" }

RECURSIVE PiecesFrom(_, _, _)
PiecesFrom(toks, n, start) ==
  IF n > Len(toks) THEN <<start>>
  ELSE IF toks[n].k = "Semi" THEN <<start>> \o PiecesFrom(toks, n + 1, toks[n].e)
  ELSE PiecesFrom(toks, n + 1, start)

\* starts of pieces; piece m is [starts[m], (starts[m+1] - 1) or Len(s))
PieceStarts(s) == PiecesFrom(LexRef(s), 1, 0)

PieceExtents(s) ==
  LET st == PieceStarts(s) IN
  [m \in DOMAIN st |-> <<st[m], IF m < Len(st) THEN st[m + 1] - 1 ELSE Len(s)>>]

PieceText(s, ext) == SubSeq(s, ext[1] + 1, ext[2])

TokensWithin(toks, ext) == SelectSeq(toks, LAMBDA t : t.s >= ext[1] /\ t.e <= ext[2])

\* the locality theorem behind C15: no look-ahead of the scanner crosses a
\* semicolon token, so every piece scanned alone has the tokens it had in context
SplitProps(s) ==
  LET toks == LexRef(s)
      exts == PieceExtents(s)
  IN /\ Len(exts) = Cardinality(SemiPositions(toks)) + 1
     /\ \A m \in DOMAIN exts :
          LET ext == exts[m]
              own == LexRef(PieceText(s, ext))
              ctx == TokensWithin(toks, ext)
          IN /\ \A n \in DOMAIN own : own[n].k # "Semi"
             /\ Len(own) = Len(ctx)
             /\ \A n \in DOMAIN own : ShiftTok(ctx[n], ext[1]) = own[n]
     /\ \A n \in DOMAIN toks :
          toks[n].k = "Semi" \/ \E m \in DOMAIN exts : toks[n].s >= exts[m][1] /\ toks[n].e <= exts[m][2]

---------------------------------------------------------------------------
(* The machine                                                             *)

VARIABLES src, ended, m
vars == <<src, ended, m>>

Read(r)      == [r EXCEPT !.pos = r.pos + 1, !.last = r.pos]
Prev(r)      == [r EXCEPT !.pos = r.last]
SetPos(r, p) == [r EXCEPT !.pos = p, !.last = p]
Goto(r, md)  == [r EXCEPT !.mode = md]

EmitT(r, k, v) ==
  [r EXCEPT !.toks = Append(r.toks, [k |-> k, s |-> r.start, e |-> r.pos, v |-> v]),
            !.mode = "Start", !.acc = <<>>, !.hasDot = FALSE]

EmitNumber(s, r) == EmitT(r, "Number", NormNumber(s, Range(r.start + 1, r.pos)))

EmitIdent(s, r) ==
  LET k == KeywordKind(SubSeq(s, r.start + 1, r.pos)) IN
  EmitT(r, k, IF k = "Identifier" THEN Range(r.start + 1, r.pos) ELSE <<>>)

EmitHex(s, r) ==
  LET ds == Range(r.mark + 1, r.pos) IN
  IF Len(DropZeros(s, ds)) > MaxHexDigits THEN EmitT(r, "Error", <<>>)
  ELSE EmitT(r, "Number", <<-16>> \o ds)

ExpStart(r) == [r EXCEPT !.mode = "ExpStart", !.mark = r.pos]
ExpNotFound(s, r) == EmitNumber(s, SetPos(r, r.mark))

\* c is the rune delivered by next(), or "EOF"; m0 the state before the call
StartStep(s, m0, c) ==
  IF c = "EOF" THEN Goto(m0, "Done")
  ELSE LET r == [Read(m0) EXCEPT !.start = m0.pos] IN
    CASE c \in Spaces -> r
      [] c \in IdentStart -> Goto(r, "Ident")
      [] c = "0" -> Goto(r, "Zero")
      [] c = "9" -> Goto(r, "Int")
      [] c = "DOT" -> Goto(r, "DotSeen")
      [] SingleKind(c) # "none" -> EmitT(r, SingleKind(c), <<>>)
      [] c \in {"SQ", "DQ"} -> [r EXCEPT !.mode = "Str", !.quote = c]
      [] c = "BT" -> Goto(r, "QIdent")
      [] c = "EQ" -> Goto(r, "EqSeen")
      [] c = "BANG" -> Goto(r, "BangSeen")
      [] c = "SLASH" -> Goto(r, "SlashSeen")
      [] c = "LT" -> Goto(r, "LtSeen")
      [] c = "GT" -> Goto(r, "GtSeen")
      [] OTHER -> EmitT(r, "Error", <<>>)

IdentStep(s, m0, c) ==
  IF c = "EOF" THEN EmitIdent(s, m0)
  ELSE IF c \in IdentCont THEN Read(m0)
  ELSE EmitIdent(s, Prev(Read(m0)))

ZeroStep(s, m0, c) ==
  IF c = "EOF" THEN EmitNumber(s, m0)
  ELSE LET r == Read(m0) IN
    CASE c = "DOT" -> [r EXCEPT !.hasDot = TRUE, !.mode = "Int"]
      [] c = "E" -> ExpStart(Prev(r))
      [] c = "X" -> [r EXCEPT !.mode = "HexFirst", !.mark = r.pos]
      [] c \in Digits -> Goto(r, "Int")
      [] OTHER -> Goto(Prev(r), "Int")

IntStep(s, m0, c) ==
  IF c = "EOF" THEN EmitNumber(s, m0)
  ELSE LET r == Read(m0) IN
    CASE c = "DOT" /\ ~m0.hasDot -> [r EXCEPT !.hasDot = TRUE]
      [] c \in Digits -> r
      [] OTHER -> ExpStart(Prev(r))

DotSeenStep(s, m0, c) ==
  IF c = "EOF" THEN EmitT(m0, "Dot", <<>>)
  ELSE LET r == Read(m0) IN
    IF c \in Digits THEN [r EXCEPT !.hasDot = TRUE, !.mode = "Int"]
    ELSE EmitT(Prev(r), "Dot", <<>>)

ExpStartStep(s, m0, c) ==
  IF c = "E" THEN Goto(Read(m0), "ExpAfterE") ELSE ExpNotFound(s, m0)

ExpAfterEStep(s, m0, c) ==
  CASE c \in {"PLUS", "MINUS"} -> Goto(Read(m0), "ExpAfterSign")
    [] c \in Digits -> Goto(Read(m0), "ExpDigits")
    [] OTHER -> ExpNotFound(s, m0)

ExpAfterSignStep(s, m0, c) ==
  IF c \in Digits THEN Goto(Read(m0), "ExpDigits") ELSE ExpNotFound(s, m0)

ExpDigitsStep(s, m0, c) ==
  IF c = "EOF" THEN EmitNumber(s, m0)
  ELSE IF c \in Digits THEN Read(m0)
  ELSE EmitNumber(s, Prev(Read(m0)))

HexFirstStep(s, m0, c) ==
  IF c \in HexDigits THEN Goto(Read(m0), "HexDigits")
  ELSE EmitT(SetPos(m0, m0.start + 2), "Error", <<>>)

HexDigitsStep(s, m0, c) ==
  IF c = "EOF" THEN EmitHex(s, m0)
  ELSE IF c \in HexDigits THEN Read(m0)
  ELSE EmitHex(s, Prev(Read(m0)))

StrStep(s, m0, c) ==
  IF c = "EOF" THEN EmitT(m0, "Error", <<>>)
  ELSE LET r == Read(m0) IN
    CASE c = m0.quote -> EmitT(r, "String", m0.acc)
      [] c = "NL" -> EmitT(Prev(r), "Error", <<>>)
      [] c = "BS" -> Goto(r, "StrEsc")
      [] OTHER -> [r EXCEPT !.acc = Append(m0.acc, r.pos)]

StrEscStep(s, m0, c) ==
  IF c = "EOF" THEN EmitT(m0, "Error", <<>>)
  ELSE LET r == Read(m0) IN
    CASE c = "NL" -> EmitT(Prev(r), "Error", <<>>)
      [] c = "n" -> [r EXCEPT !.acc = Append(m0.acc, -1), !.mode = "Str"]
      [] c = "t" -> [r EXCEPT !.acc = Append(m0.acc, -2), !.mode = "Str"]
      [] OTHER -> [r EXCEPT !.acc = Append(m0.acc, r.pos), !.mode = "Str"]

QIdentStep(s, m0, c) ==
  IF c = "EOF" THEN EmitT(m0, "Error", <<>>)
  ELSE LET r == Read(m0) IN
    CASE c = "BT" -> Goto(r, "QTick")
      [] c = "NL" -> EmitT(Prev(r), "Error", <<>>)
      [] OTHER -> [r EXCEPT !.acc = Append(m0.acc, r.pos)]

QTickStep(s, m0, c) ==
  IF c = "EOF" THEN EmitT(m0, "QuotedIdentifier", m0.acc)
  ELSE LET r == Read(m0) IN
    IF c = "BT" THEN [r EXCEPT !.acc = Append(m0.acc, r.pos), !.mode = "QIdent"]
    ELSE EmitT(Prev(r), "QuotedIdentifier", m0.acc)

EqSeenStep(s, m0, c) ==
  CASE c = "EQ" -> EmitT(Read(m0), "Eq", <<>>)
    [] c = "TILDE" -> EmitT(Read(m0), "CaseInsensitiveEq", <<>>)
    [] c = "EOF" -> EmitT(m0, "Assign", <<>>)
    [] OTHER -> EmitT(Prev(Read(m0)), "Assign", <<>>)

BangSeenStep(s, m0, c) ==
  CASE c = "EQ" -> EmitT(Read(m0), "NE", <<>>)
    [] c = "TILDE" -> EmitT(Read(m0), "CaseInsensitiveNE", <<>>)
    [] c = "EOF" -> EmitT(m0, "Error", <<>>)
    [] OTHER -> EmitT(Prev(Read(m0)), "Error", <<>>)

SlashSeenStep(s, m0, c) ==
  CASE c = "EOF" -> EmitT(m0, "Slash", <<>>)
    [] c = "SLASH" -> Goto(Read(m0), "Comment")
    [] OTHER -> EmitT(Prev(Read(m0)), "Slash", <<>>)

CommentStep(s, m0, c) ==
  CASE c = "EOF" -> Goto(m0, "Start")
    [] c = "NL" -> Goto(Read(m0), "Start")
    [] OTHER -> Read(m0)

LtSeenStep(s, m0, c) ==
  CASE c = "EQ" -> EmitT(Read(m0), "LE", <<>>)
    [] c = "EOF" -> EmitT(m0, "LT", <<>>)
    [] OTHER -> EmitT(Prev(Read(m0)), "LT", <<>>)

GtSeenStep(s, m0, c) ==
  CASE c = "EQ" -> EmitT(Read(m0), "GE", <<>>)
    [] c = "EOF" -> EmitT(m0, "GT", <<>>)
    [] OTHER -> EmitT(Prev(Read(m0)), "GT", <<>>)

StepFn(s, m0, c) ==
  CASE m0.mode = "Start" -> StartStep(s, m0, c)
    [] m0.mode = "Ident" -> IdentStep(s, m0, c)
    [] m0.mode = "Zero" -> ZeroStep(s, m0, c)
    [] m0.mode = "Int" -> IntStep(s, m0, c)
    [] m0.mode = "DotSeen" -> DotSeenStep(s, m0, c)
    [] m0.mode = "ExpStart" -> ExpStartStep(s, m0, c)
    [] m0.mode = "ExpAfterE" -> ExpAfterEStep(s, m0, c)
    [] m0.mode = "ExpAfterSign" -> ExpAfterSignStep(s, m0, c)
    [] m0.mode = "ExpDigits" -> ExpDigitsStep(s, m0, c)
    [] m0.mode = "HexFirst" -> HexFirstStep(s, m0, c)
    [] m0.mode = "HexDigits" -> HexDigitsStep(s, m0, c)
    [] m0.mode = "Str" -> StrStep(s, m0, c)
    [] m0.mode = "StrEsc" -> StrEscStep(s, m0, c)
    [] m0.mode = "QIdent" -> QIdentStep(s, m0, c)
    [] m0.mode = "QTick" -> QTickStep(s, m0, c)
    [] m0.mode = "EqSeen" -> EqSeenStep(s, m0, c)
    [] m0.mode = "BangSeen" -> BangSeenStep(s, m0, c)
    [] m0.mode = "SlashSeen" -> SlashSeenStep(s, m0, c)
    [] m0.mode = "Comment" -> CommentStep(s, m0, c)
    [] m0.mode = "LtSeen" -> LtSeenStep(s, m0, c)
    [] m0.mode = "GtSeen" -> GtSeenStep(s, m0, c)

Modes == {"Start", "Ident", "Zero", "Int", "DotSeen", "ExpStart", "ExpAfterE", "ExpAfterSign",
          "ExpDigits", "HexFirst", "HexDigits", "Str", "StrEsc", "QIdent", "QTick", "EqSeen",
          "BangSeen", "SlashSeen", "Comment", "LtSeen", "GtSeen"}

M0 == [pos |-> 0, last |-> 0, mode |-> "Start", start |-> 0, hasDot |-> FALSE,
       quote |-> "SQ", acc |-> <<>>, mark |-> 0, toks |-> <<>>]

\* whole-input run of the machine (used by trace validation)
RECURSIVE RunMachine(_, _)
RunMachine(s, r) ==
  IF r.mode = "Done" THEN r.toks
  ELSE RunMachine(s, StepFn(s, r, At(s, r.pos + 1)))
LexMachine(s) == RunMachine(s, M0)

Init == src = <<>> /\ ended = FALSE /\ m = M0

Feed(c) == /\ ~ended /\ m.mode # "Done" /\ m.pos = Len(src) /\ Len(src) < MaxLen
           /\ src' = Append(src, c) /\ UNCHANGED <<ended, m>>

Close == /\ ~ended /\ m.pos = Len(src)
         /\ ended' = TRUE /\ UNCHANGED <<src, m>>

Step(md) == /\ m.mode = md
            /\ (m.pos < Len(src) \/ ended)
            /\ m' = StepFn(src, m, At(src, m.pos + 1))
            /\ UNCHANGED <<src, ended>>

Next == (\E c \in Alphabet : Feed(c)) \/ Close \/ (\E md \in Modes : Step(md))

Spec == Init /\ [][Next]_vars /\ WF_vars(\E md \in Modes : Step(md))

---------------------------------------------------------------------------
(* Properties                                                              *)

TypeOK == /\ m.pos \in 0..Len(src) /\ m.last \in 0..Len(src) /\ m.start \in 0..Len(src)
          /\ m.mode \in Modes \cup {"Done"}

\* tokens in source order, not overlapping, non-empty, inside what was read
TokensOrdered ==
  \A n \in DOMAIN m.toks :
    /\ m.toks[n].s < m.toks[n].e
    /\ m.toks[n].e <= Len(src)
    /\ (n > 1 => m.toks[n - 1].e <= m.toks[n].s)

\* the cursor never falls behind the end of the last token, and a back-up
\* never moves it by more than the one rune of look-ahead (setPos: the
\* exponent and hex roll-backs move it to a point inside the current token)
CursorSane ==
  /\ m.mode # "Done" => m.start <= m.pos
  /\ (m.toks # <<>> /\ m.mode = "Start") => m.toks[Len(m.toks)].e <= m.pos

\* termination measure for C12: between two reads of the same position the
\* machine has emitted a token or changed mode; bounded look-back
Progress == m.pos - m.last \in {0, 1}

MachineEqualsRef == m.mode = "Done" => m.toks = LexRef(src)

GapsAreBlank ==
  m.mode = "Done" =>
    LET bounds == <<0>> \o [n \in DOMAIN m.toks |-> m.toks[n].e]
        starts == [n \in DOMAIN m.toks |-> m.toks[n].s] \o <<Len(src)>>
    IN \A n \in DOMAIN bounds : LexRef(SubSeq(src, bounds[n] + 1, starts[n])) = <<>>

Rescan ==
  m.mode = "Done" =>
    \A n \in DOMAIN m.toks :
      LET t == m.toks[n] IN LexRef(SubSeq(src, t.s + 1, t.e)) = <<ShiftTok(t, t.s)>>

SplitOK == m.mode = "Done" => SplitProps(src)

EmitCase ==
  (EmitCases /\ m.mode = "Done") =>
     PrintT("CASE " \o ToJson([src |-> src, toks |-> m.toks, pieces |-> PieceExtents(src)]))

Terminates == <>(m.mode = "Done")
=============================================================================
