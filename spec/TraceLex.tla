------------------------------ MODULE TraceLex ------------------------------
(***************************************************************************)
(* Trace validation for the scanner (code -> model).  Each line of the     *)
(* trace is one observed call of parser.Scan: the source as class symbols  *)
(* and the tokens the real scanner returned (kinds and extents).  The      *)
(* record is accepted iff kinds and extents equal LexRef's; TLC answers    *)
(* with a TV line carrying its own tokens (with value atoms) and the       *)
(* statement pieces, which the harness compares byte for byte.             *)
(***************************************************************************)
EXTENDS PqlLexer, IOUtils

Trace == ndJsonDeserialize(IOEnv.TRACE_FILE)

VARIABLE l

KSE(toks) == [n \in DOMAIN toks |-> <<toks[n].k, toks[n].s, toks[n].e>>]

Verdict(rec) ==
  LET exp == LexRef(rec.src) IN
  [id |-> rec.id, ok |-> KSE(exp) = KSE(rec.toks), toks |-> exp, pieces |-> PieceExtents(rec.src)]

TraceInit == l = 1 /\ Init

TraceNext ==
  /\ l <= Len(Trace)
  /\ PrintT("TV " \o ToJson(Verdict(Trace[l])))
  /\ l' = l + 1
  /\ UNCHANGED vars

\* the two definitions of the scanner agree on every observed input, and the
\* splitting theorem holds on it
ModelConsistent ==
  l <= Len(Trace) =>
    /\ LexMachine(Trace[l].src) = LexRef(Trace[l].src)
    /\ SplitProps(Trace[l].src)

TraceDone == TLCGet("stats").diameter - 1 = Len(Trace)
=============================================================================
