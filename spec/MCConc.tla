------------------------------- MODULE MCConc -------------------------------
(* model values for Conc: three goroutines, five calls, two shared maps *)
EXTENDS Conc
MCG == {"g1", "g2", "g3"}
C(l, t, m) == [lets |-> l, tabs |-> t, map |-> m]
MCCalls == [g \in MCG |->
              CASE g = "g1" -> <<C(1, 1, "A"), C(0, 1, "nil")>>
                [] g = "g2" -> <<C(0, 2, "A"), C(1, 0, "B")>>
                [] g = "g3" -> <<C(1, 1, "nil")>>]
MCMaps == {"A", "B"}
=============================================================================
