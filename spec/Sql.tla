--------------------------------- MODULE Sql ---------------------------------
(***************************************************************************)
(* The target side: a reader for the SQL that pql emits, written as a      *)
(* specification of its own.                                               *)
(*                                                                         *)
(* Input: SQL tokens [k, v] with k in                                      *)
(*   "kw"  keyword, upper-cased        "id"  bare identifier (functions)   *)
(*   "qid" double-quoted identifier    "str" string literal (decoded)      *)
(*   "num" number                      "op"  operator / punctuation        *)
(*   "ph"  parameter placeholder       "cmt" comment    "bad" unlexable    *)
(*                                                                         *)
(* Expressions are read by precedence climbing under a precedence table;   *)
(* two tables are provided, ClickHouse ("ch": IN at comparison level) and  *)
(* standard / PostgreSQL ("pg": IN binds tighter than comparisons), and    *)
(* properties are required under both.                                     *)
(*   levels: OR 1 < AND 2 < NOT 3 < IS [NOT] NULL 4 < comparisons 5        *)
(*           (< IN 6 in pg) < || 7 < + - 8 < * / % 9 < sign 10 < [ ] 11    *)
(*                                                                         *)
(* Statements:  [WITH name AS (select) {, name AS (select)}] select ;      *)
(*   select := SELECT [DISTINCT] items FROM source [WHERE e] [GROUP BY es] *)
(*             [ORDER BY e (ASC|DESC) [NULLS (FIRST|LAST)] {, ...}]        *)
(*             [LIMIT e]                                                   *)
(*   source := item [[INNER | LEFT [OUTER]] JOIN item ON e]                *)
(*   item   := name [AS alias] | ( select ) [AS alias]                     *)
(***************************************************************************)
EXTENDS Integers, Sequences, FiniteSets, TLC

ST(k, v) == [k |-> k, v |-> v]
KW(v) == ST("kw", v)
OP(v) == ST("op", v)

Fail == [ok |-> FALSE]
Ok(v, i) == [ok |-> TRUE, v |-> v, i |-> i]

TokAt(ts, i) == IF i >= 1 /\ i <= Len(ts) THEN ts[i] ELSE ST("eof", "")
IsKW(t, v) == t.k = "kw" /\ t.v = v
IsOP(t, v) == t.k = "op" /\ t.v = v

\* SQL expression trees
SNone == [k |-> "None"]
SCol(parts) == [k |-> "Col", parts |-> parts]
SNum(v) == [k |-> "Num", v |-> v]
SStr(v) == [k |-> "Str", v |-> v]
SConst(v) == [k |-> "Const", v |-> v]          \* "TRUE" "FALSE" "NULL" "CURRENT_TIMESTAMP"
SPh(v) == [k |-> "Ph", v |-> v]
SUn(op, x) == [k |-> "Un", op |-> op, x |-> x]  \* "-" "+" "NOT" "ISNULL" "ISNOTNULL"
SBin(op, x, y) == [k |-> "Bin", op |-> op, x |-> x, y |-> y]
SIn(x, vals) == [k |-> "In", x |-> x, vals |-> vals]
SIndex(x, i) == [k |-> "Index", x |-> x, index |-> i]
SCall(f, args) == [k |-> "Call", fn |-> f, args |-> args]
SCountIf(x) == [k |-> "CountIf", x |-> x]       \* count() FILTER (WHERE x)
SCase(w, a, b) == [k |-> "Case", w |-> w, a |-> a, b |-> b]
SStar == [k |-> "Star"]

CmpOps == {"=", "<>", "<", "<=", ">", ">=", "!=", "=="}
\* ClickHouse also spells the two equality tests != and ==
NormOp(v) == CASE v = "!=" -> "<>" [] v = "==" -> "=" [] OTHER -> v
\* infix level of the token at the cursor under table tbl, 0 if none
InfixLevel(t, tbl) ==
  CASE IsKW(t, "OR") -> 1
    [] IsKW(t, "AND") -> 2
    [] IsKW(t, "IS") -> 4
    [] t.k = "op" /\ t.v \in CmpOps -> 5
    [] IsKW(t, "IN") -> IF tbl = "pg" THEN 6 ELSE 5
    [] IsOP(t, "||") -> 7
    [] t.k = "op" /\ t.v \in {"+", "-"} -> 8
    [] t.k = "op" /\ t.v \in {"*", "/", "%"} -> 9
    [] IsOP(t, "[") -> 11
    [] OTHER -> 0

RECURSIVE RdExpr(_, _, _, _), RdList(_, _, _, _), RdPrimary(_, _, _), RdTrail(_, _, _, _, _), RdParts(_, _, _)

\* qid { . qid }
RdParts(ts, i, acc) ==
  IF IsOP(TokAt(ts, i), ".") /\ TokAt(ts, i + 1).k = "qid"
  THEN RdParts(ts, i + 2, Append(acc, TokAt(ts, i + 1).v))
  ELSE Ok(SCol(acc), i)

\* comma separated expressions up to (not including) the closing token
RdList(ts, i, tbl, acc) ==
  LET e == RdExpr(ts, i, 1, tbl) IN
  IF ~e.ok THEN Fail
  ELSE IF IsOP(TokAt(ts, e.i), ",") THEN RdList(ts, e.i + 1, tbl, Append(acc, e.v))
  ELSE Ok(Append(acc, e.v), e.i)

RdPrimary(ts, i, tbl) ==
  LET t == TokAt(ts, i) IN
  CASE t.k = "num" -> Ok(SNum(t.v), i + 1)
    [] t.k = "str" -> Ok(SStr(t.v), i + 1)
    [] t.k = "ph" -> Ok(SPh(t.v), i + 1)
    [] t.k = "qid" -> RdParts(ts, i + 1, <<t.v>>)
    [] t.k = "kw" /\ t.v \in {"TRUE", "FALSE", "NULL", "CURRENT_TIMESTAMP"} -> Ok(SConst(t.v), i + 1)
    [] IsOP(t, "(") ->
         LET e == RdExpr(ts, i + 1, 1, tbl) IN
         IF e.ok /\ IsOP(TokAt(ts, e.i), ")") THEN Ok(e.v, e.i + 1) ELSE Fail
    [] IsKW(t, "CASE") ->
         IF ~IsKW(TokAt(ts, i + 1), "WHEN") THEN Fail
         ELSE LET w == RdExpr(ts, i + 2, 1, tbl) IN
              IF ~(w.ok /\ IsKW(TokAt(ts, w.i), "THEN")) THEN Fail
              ELSE LET a == RdExpr(ts, w.i + 1, 1, tbl) IN
                   IF ~(a.ok /\ IsKW(TokAt(ts, a.i), "ELSE")) THEN Fail
                   ELSE LET b == RdExpr(ts, a.i + 1, 1, tbl) IN
                        IF b.ok /\ IsKW(TokAt(ts, b.i), "END") THEN Ok(SCase(w.v, a.v, b.v), b.i + 1) ELSE Fail
    [] t.k = "id" /\ IsOP(TokAt(ts, i + 1), "(") /\ IsOP(TokAt(ts, i + 2), "*") /\ IsOP(TokAt(ts, i + 3), ")") ->
         Ok(SCall(t.v, <<SStar>>), i + 4)                                   \* COUNT(*)
    [] t.k = "id" /\ IsOP(TokAt(ts, i + 1), "(") ->
         LET args == IF IsOP(TokAt(ts, i + 2), ")") THEN Ok(<<>>, i + 2) ELSE RdList(ts, i + 2, tbl, <<>>) IN
         IF ~(args.ok /\ IsOP(TokAt(ts, args.i), ")")) THEN Fail
         ELSE IF IsKW(TokAt(ts, args.i + 1), "FILTER")
              THEN \* f() FILTER (WHERE e)
                   IF IsOP(TokAt(ts, args.i + 2), "(") /\ IsKW(TokAt(ts, args.i + 3), "WHERE")
                   THEN LET e == RdExpr(ts, args.i + 4, 1, tbl) IN
                        IF e.ok /\ IsOP(TokAt(ts, e.i), ")") /\ t.v = "count" /\ args.v = <<>>
                        THEN Ok(SCountIf(e.v), e.i + 1) ELSE Fail
                   ELSE Fail
              ELSE Ok(SCall(t.v, args.v), args.i + 1)
    [] t.k = "kw" /\ t.v \notin {"NOT", "SELECT", "AS"} /\ IsOP(TokAt(ts, i + 1), "(") ->
         \* a pass-through function whose name happens to be an SQL keyword (functions are
         \* passed to the engine by name; whether the engine accepts the name is its business)
         LET args == IF IsOP(TokAt(ts, i + 2), ")") THEN Ok(<<>>, i + 2) ELSE RdList(ts, i + 2, tbl, <<>>) IN
         IF args.ok /\ IsOP(TokAt(ts, args.i), ")") THEN Ok(SCall("kw:" \o t.v, args.v), args.i + 1) ELSE Fail
    [] t.k = "id" -> Ok(SPh(t.v), i + 1)          \* a bare word (verbatim parameter text)
    [] OTHER -> Fail

\* prefix operators and primary, then the infix / postfix trail
RdExpr(ts, i, minLvl, tbl) ==
  LET t == TokAt(ts, i) IN
  IF IsKW(t, "NOT")
  THEN IF minLvl > 3 THEN Fail   \* NOT cannot be an operand of a tighter operator without parentheses
       ELSE
       LET x == RdExpr(ts, i + 1, 3, tbl) IN
       IF x.ok THEN RdTrail(ts, x.i, minLvl, tbl, SUn("NOT", x.v)) ELSE Fail
  ELSE IF t.k = "op" /\ t.v \in {"-", "+"}
  THEN LET x == RdExpr(ts, i + 1, 10, tbl) IN
       IF x.ok THEN RdTrail(ts, x.i, minLvl, tbl, SUn(t.v, x.v)) ELSE Fail
  ELSE LET p == RdPrimary(ts, i, tbl) IN
       IF p.ok THEN RdTrail(ts, p.i, minLvl, tbl, p.v) ELSE Fail

RdTrail(ts, i, minLvl, tbl, lhs) ==
  LET t == TokAt(ts, i)
      L == InfixLevel(t, tbl)
  IN IF L = 0 \/ L < minLvl THEN Ok(lhs, i)
     ELSE IF IsOP(t, "[")
     THEN LET e == RdExpr(ts, i + 1, 1, tbl) IN
          IF e.ok /\ IsOP(TokAt(ts, e.i), "]") THEN RdTrail(ts, e.i + 1, minLvl, tbl, SIndex(lhs, e.v)) ELSE Fail
     ELSE IF IsKW(t, "IS")
     THEN IF IsKW(TokAt(ts, i + 1), "NULL") THEN RdTrail(ts, i + 2, minLvl, tbl, SUn("ISNULL", lhs))
          ELSE IF IsKW(TokAt(ts, i + 1), "NOT") /\ IsKW(TokAt(ts, i + 2), "NULL")
               THEN RdTrail(ts, i + 3, minLvl, tbl, SUn("ISNOTNULL", lhs))
               ELSE Fail
     ELSE IF IsKW(t, "IN")
     THEN IF ~IsOP(TokAt(ts, i + 1), "(") THEN Fail
          ELSE LET vs == RdList(ts, i + 2, tbl, <<>>) IN
               IF vs.ok /\ IsOP(TokAt(ts, vs.i), ")") THEN RdTrail(ts, vs.i + 1, minLvl, tbl, SIn(lhs, vs.v)) ELSE Fail
     ELSE LET op == NormOp(t.v)
              r == RdExpr(ts, i + 1, L + 1, tbl)
          IN IF r.ok THEN RdTrail(ts, r.i, minLvl, tbl, SBin(op, lhs, r.v)) ELSE Fail

\* a complete expression: all tokens consumed
ReadExpr(ts, tbl) ==
  LET e == RdExpr(ts, 1, 1, tbl) IN
  IF e.ok /\ e.i = Len(ts) + 1 THEN e ELSE Fail

---------------------------------------------------------------------------
(* Statements                                                              *)

RECURSIVE RdSelect(_, _, _), RdItems(_, _, _, _), RdSourceItem(_, _, _), RdOrder(_, _, _, _), RdCtes(_, _, _, _)

\* e [AS alias] | * ; comma separated, up to FROM
RdItems(ts, i, tbl, acc) ==
  LET one == IF IsOP(TokAt(ts, i), "*") THEN Ok([e |-> SStar, as |-> ""], i + 1)
             ELSE LET e == RdExpr(ts, i, 1, tbl) IN
                  IF ~e.ok THEN Fail
                  ELSE IF IsKW(TokAt(ts, e.i), "AS") /\ TokAt(ts, e.i + 1).k = "qid"
                       THEN Ok([e |-> e.v, as |-> TokAt(ts, e.i + 1).v], e.i + 2)
                       ELSE IF TokAt(ts, e.i).k = "qid"                      \* alias without AS
                       THEN Ok([e |-> e.v, as |-> TokAt(ts, e.i).v], e.i + 1)
                       ELSE Ok([e |-> e.v, as |-> ""], e.i)
  IN IF ~one.ok THEN Fail
     ELSE IF IsOP(TokAt(ts, one.i), ",") THEN RdItems(ts, one.i + 1, tbl, Append(acc, one.v))
     ELSE Ok(Append(acc, one.v), one.i)

RdAlias(ts, i) ==
  IF IsKW(TokAt(ts, i), "AS") /\ TokAt(ts, i + 1).k = "qid" THEN Ok(TokAt(ts, i + 1).v, i + 2)
  ELSE IF TokAt(ts, i).k = "qid" THEN Ok(TokAt(ts, i).v, i + 1)                   \* alias without AS
  ELSE Ok("", i)

RdSourceItem(ts, i, tbl) ==
  LET t == TokAt(ts, i) IN
  IF t.k = "qid"
  THEN LET a == RdAlias(ts, i + 1) IN Ok([k |-> "table", name |-> t.v, as |-> a.v], a.i)
  ELSE IF IsOP(t, "(")
  THEN LET s == RdSelect(ts, i + 1, tbl) IN
       IF s.ok /\ IsOP(TokAt(ts, s.i), ")")
       THEN LET a == RdAlias(ts, s.i + 1) IN Ok([k |-> "sub", sel |-> s.v, as |-> a.v], a.i)
       ELSE Fail
  ELSE Fail

RdSource(ts, i, tbl) ==
  LET l == RdSourceItem(ts, i, tbl) IN
  IF ~l.ok THEN Fail
  ELSE LET t == TokAt(ts, l.i)
           t1 == TokAt(ts, l.i + 1)
           t2 == TokAt(ts, l.i + 2)
           \* JOIN | INNER JOIN | LEFT JOIN | LEFT OUTER JOIN: number of keyword tokens (0: no join follows)
           nkw == IF IsKW(t, "JOIN") THEN 1
                  ELSE IF IsKW(t, "INNER") /\ IsKW(t1, "JOIN") THEN 2
                  ELSE IF IsKW(t, "LEFT") /\ IsKW(t1, "JOIN") THEN 2
                  ELSE IF IsKW(t, "LEFT") /\ IsKW(t1, "OUTER") /\ IsKW(t2, "JOIN") THEN 3
                  ELSE 0
           isLeft == IsKW(t, "LEFT")
       IN IF nkw = 0 THEN l
          ELSE LET r == RdSourceItem(ts, l.i + nkw, tbl) IN
               IF ~(r.ok /\ IsKW(TokAt(ts, r.i), "ON")) THEN Fail
               ELSE LET c == RdExpr(ts, r.i + 1, 1, tbl) IN
                    IF ~c.ok THEN Fail
                    ELSE Ok([k |-> "join", kind |-> IF isLeft THEN "left" ELSE "inner", l |-> l.v, r |-> r.v, on |-> c.v], c.i)

RdOrder(ts, i, tbl, acc) ==
  LET e == RdExpr(ts, i, 1, tbl) IN
  IF ~e.ok THEN Fail
  ELSE LET t == TokAt(ts, e.i)
           hasDir == IsKW(t, "ASC") \/ IsKW(t, "DESC")
           asc == ~IsKW(t, "DESC")
           j == IF hasDir THEN e.i + 1 ELSE e.i
           hasNulls == IsKW(TokAt(ts, j), "NULLS") /\ (IsKW(TokAt(ts, j + 1), "FIRST") \/ IsKW(TokAt(ts, j + 1), "LAST"))
           \* SQL default: NULLS LAST for ASC, NULLS FIRST for DESC (PostgreSQL); ClickHouse: NULLS LAST always.
           \* pql always writes both, so the default is only recorded.
           nf == IF hasNulls THEN IsKW(TokAt(ts, j + 1), "FIRST") ELSE FALSE
           n == IF hasNulls THEN j + 2 ELSE j
           term == [e |-> e.v, asc |-> asc, nullsFirst |-> nf, explicit |-> hasDir /\ hasNulls]
       IN IF IsOP(TokAt(ts, n), ",") THEN RdOrder(ts, n + 1, tbl, Append(acc, term))
          ELSE Ok(Append(acc, term), n)

RdSelect(ts, i, tbl) ==
  IF ~IsKW(TokAt(ts, i), "SELECT") THEN Fail
  ELSE LET dist == IsKW(TokAt(ts, i + 1), "DISTINCT")
           items == RdItems(ts, IF dist THEN i + 2 ELSE i + 1, tbl, <<>>)
       IN IF ~(items.ok /\ IsKW(TokAt(ts, items.i), "FROM")) THEN Fail
          ELSE LET src == RdSource(ts, items.i + 1, tbl) IN
               IF ~src.ok THEN Fail
               ELSE LET w == IF IsKW(TokAt(ts, src.i), "WHERE") THEN RdExpr(ts, src.i + 1, 1, tbl) ELSE Ok(SNone, src.i) IN
                    IF ~w.ok THEN Fail
                    ELSE LET g == IF IsKW(TokAt(ts, w.i), "GROUP") /\ IsKW(TokAt(ts, w.i + 1), "BY")
                                  THEN RdList(ts, w.i + 2, tbl, <<>>) ELSE Ok(<<>>, w.i) IN
                         IF ~g.ok THEN Fail
                         ELSE LET o == IF IsKW(TokAt(ts, g.i), "ORDER") /\ IsKW(TokAt(ts, g.i + 1), "BY")
                                       THEN RdOrder(ts, g.i + 2, tbl, <<>>) ELSE Ok(<<>>, g.i) IN
                              IF ~o.ok THEN Fail
                              ELSE LET lim == IF IsKW(TokAt(ts, o.i), "LIMIT") THEN RdExpr(ts, o.i + 1, 1, tbl) ELSE Ok(SNone, o.i) IN
                                   IF ~lim.ok THEN Fail
                                   ELSE Ok([items |-> items.v, distinct |-> dist, from |-> src.v, where |-> w.v,
                                            group |-> g.v, order |-> o.v, limit |-> lim.v], lim.i)

\* name AS ( select ) {, ...}
RdCtes(ts, i, tbl, acc) ==
  IF TokAt(ts, i).k = "qid" /\ IsKW(TokAt(ts, i + 1), "AS") /\ IsOP(TokAt(ts, i + 2), "(")
  THEN LET s == RdSelect(ts, i + 3, tbl) IN
       IF ~(s.ok /\ IsOP(TokAt(ts, s.i), ")")) THEN Fail
       ELSE LET acc2 == Append(acc, [name |-> TokAt(ts, i).v, sel |-> s.v]) IN
            IF IsOP(TokAt(ts, s.i + 1), ",") THEN RdCtes(ts, s.i + 2, tbl, acc2) ELSE Ok(acc2, s.i + 1)
  ELSE Fail

\* the whole output of Compile: one statement, one final semicolon, nothing else
ReadStmt(ts, tbl) ==
  LET ctes == IF IsKW(TokAt(ts, 1), "WITH") THEN RdCtes(ts, 2, tbl, <<>>) ELSE Ok(<<>>, 1) IN
  IF ~ctes.ok THEN Fail
  ELSE LET m == RdSelect(ts, ctes.i, tbl) IN
       IF m.ok /\ IsOP(TokAt(ts, m.i), ";") /\ m.i = Len(ts)
       THEN Ok([ctes |-> ctes.v, main |-> m.v], m.i + 1) ELSE Fail
=============================================================================
