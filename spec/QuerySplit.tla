------------------------------ MODULE QuerySplit ------------------------------
(***************************************************************************)
(* pql.go splitQueries / chainSubquery / canAttachSort / subquery.write  *)
(* and the WITH assembly of Compile, as a model: a tabular expression is   *)
(* folded, one step per operator, into a list of subqueries                *)
(*     [name, src (SQL tokens of the FROM source), op, sort, take]         *)
(* and rendered to the SQL tokens of one statement.                        *)
(*                                                                         *)
(* Control state that decides whether an operator starts a new subquery:   *)
(* whether there is a last subquery of this pipeline, the kind of its      *)
(* operator, whether a sort / a row limit is already attached.             *)
(***************************************************************************)
EXTENDS ExprEmit, Rel

NoOp == [k |-> "NoOp"]
SubQ(name, src) == [name |-> name, src |-> src, op |-> NoOp, sort |-> <<>>, hasSort |-> FALSE, take |-> None]

SubName(i) == "__subquery" \o ToString(i)

CanAttachSort(op) == op.k \notin {"Project", "Summarize", "As", "Render"}

\* chainSubquery: reads the previous subquery of this pipeline, or the table
Chain(dst, dstStart, tab) ==
  SubQ(SubName(Len(dst)),
      IF Len(dst) > dstStart THEN <<ST("qid", dst[Len(dst)].name)>> ELSE <<ST("qid", tab.table.name)>>)

\* buildJoinCondition / rewriteSimpleJoinCondition
JoinCondTree(conds) ==
  LET Rw(c) == IF c.k = "QIdent" /\ Len(c.parts) = 1 /\ ~c.parts[1].quoted /\ BuiltinConst(c.parts[1].name) = ""
               THEN Bin("Eq", Qual("$left", c.parts[1].name), Qual("$right", c.parts[1].name)) ELSE c
      RECURSIVE Fold(_)
      Fold(n) == IF n = 1 THEN Rw(conds[1]) ELSE Bin("And", Fold(n - 1), Rw(conds[n]))
  IN IF conds = <<>> THEN Col("true") ELSE Fold(Len(conds))

\* st = [dst, last] : last = index into dst of lastSubquery, 0 = nil
RECURSIVE SplitTab(_, _, _), SplitOps(_, _, _, _, _)

SplitStep(st, dstStart, tab, op, scope) ==
  LET dst == st.dst
      last == st.last
      lastSub == IF last = 0 THEN SubQ("", <<>>) ELSE dst[last]
      fresh == Chain(dst, dstStart, tab)
      needNewForSort == last = 0 \/ ~CanAttachSort(lastSub.op) \/ lastSub.hasSort \/ lastSub.take # None
      needNewForTake == last = 0 \/ ~CanAttachSort(lastSub.op) \/ lastSub.take # None
  IN CASE op.k = "As" ->
            [dst |-> Append(dst, [fresh EXCEPT !.name = op.name.name, !.op = op]), last |-> Len(dst) + 1]
       [] op.k = "Sort" ->
            IF needNewForSort
            THEN [dst |-> Append(dst, [fresh EXCEPT !.sort = op.terms, !.hasSort = TRUE]), last |-> Len(dst) + 1]
            ELSE [dst |-> [dst EXCEPT ![last].sort = op.terms, ![last].hasSort = TRUE], last |-> last]
       [] op.k = "Take" ->
            IF needNewForTake
            THEN [dst |-> Append(dst, [fresh EXCEPT !.take = op.n]), last |-> Len(dst) + 1]
            ELSE [dst |-> [dst EXCEPT ![last].take = op.n], last |-> last]
       [] op.k = "Top" ->
            IF needNewForSort
            THEN [dst |-> Append(dst, [fresh EXCEPT !.sort = <<op.col>>, !.hasSort = TRUE, !.take = op.n]), last |-> Len(dst) + 1]
            ELSE [dst |-> [dst EXCEPT ![last].sort = <<op.col>>, ![last].hasSort = TRUE, ![last].take = op.n], last |-> last]
       [] op.k = "Join" ->
            LET leftIdx == Len(dst)                                   \* index of the left subquery (0-based len-1, here 1-based)
                right == SplitTab(dst, op.right, scope)               \* appends the right-hand pipeline's subqueries
                rdst == right
                flavor == IF op.flavor = None THEN "innerunique" ELSE op.flavor.name
                leftSrc == IF leftIdx > dstStart THEN <<ST("qid", dst[leftIdx].name)>> ELSE <<ST("qid", tab.table.name)>>
                leftToks == IF flavor = "innerunique"
                            THEN <<OP("("), KW("SELECT"), KW("DISTINCT"), OP("*"), KW("FROM")>> \o leftSrc \o <<OP(")")>>
                            ELSE leftSrc
                joinKw == IF flavor = "leftouter" THEN <<KW("LEFT"), KW("JOIN")>> ELSE <<KW("JOIN")>>
                cond == Em(JoinCondTree(op.conds), [mode |-> "join", scope |-> scope])
                src == leftToks \o <<KW("AS"), ST("qid", "$left")>> \o joinKw \o <<ST("qid", rdst[Len(rdst)].name)>>
                       \o <<KW("AS"), ST("qid", "$right"), KW("ON")>> \o cond
            IN [dst |-> Append(rdst, SubQ(SubName(Len(rdst)), src)), last |-> Len(rdst) + 1]
       [] OTHER ->
            [dst |-> Append(dst, [fresh EXCEPT !.op = op]), last |-> Len(dst) + 1]

SplitOps(st, dstStart, tab, i, scope) ==
  IF i > Len(tab.ops) THEN st ELSE SplitOps(SplitStep(st, dstStart, tab, tab.ops[i], scope), dstStart, tab, i + 1, scope)

\* splitQueries(dst, source, expr): returns the extended dst
SplitTab(dst, tab, scope) ==
  LET dstStart == Len(dst)
      st == SplitOps([dst |-> dst, last |-> 0], dstStart, tab, 1, scope)
  IN IF Len(st.dst) = dstStart THEN Append(st.dst, Chain(st.dst, dstStart, tab)) ELSE st.dst

---------------------------------------------------------------------------
(* subquery.write                                                       *)

ColName(c) == IF c.name = None THEN ImplicitName(c.x) ELSE c.name.name

RECURSIVE WrCols(_, _, _, _)
\* e AS "name" {, e AS "name"}
WrCols(cs, ctx, i, first) ==
  IF i > Len(cs) THEN <<>>
  ELSE (IF first /\ i = 1 THEN <<>> ELSE <<OP(",")>>)
       \o Em(IF cs[i].x = None THEN [k |-> "QIdent", parts |-> <<cs[i].name>>] ELSE cs[i].x, ctx)
       \o <<KW("AS"), ST("qid", ColName(cs[i]))>> \o WrCols(cs, ctx, i + 1, first)

RECURSIVE WrGroup(_, _, _), WrOrder(_, _, _), WrProps(_, _)
WrGroup(cs, ctx, i) == IF i > Len(cs) THEN <<>> ELSE (IF i > 1 THEN <<OP(",")>> ELSE <<>>) \o Em(cs[i].x, ctx) \o WrGroup(cs, ctx, i + 1)
WrOrder(ts, ctx, i) ==
  IF i > Len(ts) THEN <<>>
  ELSE (IF i > 1 THEN <<OP(",")>> ELSE <<>>) \o Em(ts[i].x, ctx)
       \o <<KW(IF ts[i].asc THEN "ASC" ELSE "DESC"), KW("NULLS"), KW(IF ts[i].nullsFirst THEN "FIRST" ELSE "LAST")>>
       \o WrOrder(ts, ctx, i + 1)
WrProps(ps, i) ==
  IF i > Len(ps) THEN <<>>
  ELSE <<OP(","), ST("str", IF ps[i].value.k = "Lit" THEN ps[i].value.value
                            ELSE IF ps[i].value.k = "QIdent" THEN ps[i].value.parts[1].name ELSE ""),
         KW("AS"), ST("qid", "render_prop_" \o ps[i].name.name)>> \o WrProps(ps, i + 1)

WriteSub(sub, ctx) ==
  LET op == sub.op
      body ==
        CASE op.k \in {"NoOp", "As"} -> <<KW("SELECT"), OP("*"), KW("FROM")>> \o sub.src
          [] op.k = "Project" -> <<KW("SELECT")>> \o WrCols(op.cols, ctx, 1, TRUE) \o <<KW("FROM")>> \o sub.src
          [] op.k = "Extend" -> <<KW("SELECT"), OP("*")>> \o WrCols(op.cols, ctx, 1, FALSE) \o <<KW("FROM")>> \o sub.src
          [] op.k = "Summarize" ->
               <<KW("SELECT")>> \o WrCols(op.groupBy, ctx, 1, TRUE) \o WrCols(op.cols, ctx, 1, op.groupBy = <<>>)
               \o <<KW("FROM")>> \o sub.src
               \o (IF op.groupBy # <<>> THEN <<KW("GROUP"), KW("BY")>> \o WrGroup(op.groupBy, ctx, 1) ELSE <<>>)
          [] op.k = "Where" -> <<KW("SELECT"), OP("*"), KW("FROM")>> \o sub.src \o <<KW("WHERE")>> \o Em(op.pred, ctx)
          [] op.k = "Count" -> <<KW("SELECT"), ST("id", "COUNT"), OP("("), OP("*"), OP(")"), KW("AS"), ST("qid", "count()"), KW("FROM")>> \o sub.src
          [] op.k = "Render" -> <<KW("SELECT"), OP("*"), OP(","), ST("str", op.chart.name), KW("AS"), ST("qid", "render_type")>>
                                \o WrProps(op.props, 1) \o <<KW("FROM")>> \o sub.src
  IN body
     \o (IF sub.hasSort THEN <<KW("ORDER"), KW("BY")>> \o WrOrder(sub.sort, ctx, 1) ELSE <<>>)
     \o (IF sub.take # None THEN <<KW("LIMIT")>> \o Em(sub.take, ctx) ELSE <<>>)

RECURSIVE WrCtes(_, _, _)
WrCtes(subs, ctx, i) ==
  IF i > Len(subs) - 1 THEN <<>>
  ELSE (IF i > 1 THEN <<OP(",")>> ELSE <<>>)
       \o <<ST("qid", subs[i].name), KW("AS"), OP("(")>> \o WriteSub(subs[i], ctx) \o <<OP(")")>> \o WrCtes(subs, ctx, i + 1)

\* the statement Compile returns for a tabular expression under a scope (tokens)
RenderStmt(tab, scope) ==
  LET subs == SplitTab(<<>>, tab, scope)
      ctx == [mode |-> "default", scope |-> scope]
  IN (IF Len(subs) > 1 THEN <<KW("WITH")>> \o WrCtes(subs, ctx, 1) ELSE <<>>)
     \o WriteSub(subs[Len(subs)], ctx) \o <<OP(";")>>
=============================================================================
