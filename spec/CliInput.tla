------------------------------ MODULE CliInput ------------------------------
(***************************************************************************)
(* How the script reaches the command (cmd/pql/main.go makeInput,          *)
(* multiReadCloser, the bufio line scanner, makeOutput) and what the       *)
(* command owes when the input cannot be read completely (C16).            *)
(*                                                                         *)
(* After a script and its layout (Cli.tla) are complete, a channel is      *)
(* chosen:                                                                 *)
(*   "stdin"   the text on standard input                                  *)
(*   "file"    one FILE argument                                           *)
(*   "files"   the text cut at two symbol boundaries into three FILE       *)
(*             arguments (pieces may be empty)                             *)
(* a fault:                                                                *)
(*   "none"                                                                *)
(*   "dirJ"    a directory as an extra argument before piece J+1 (J = 3:   *)
(*             after the last): it can be opened, reading it fails         *)
(*   "missJ"   a path that does not exist, same positions: makeInput       *)
(*             fails before anything is read                               *)
(*   "dashJ"   piece J is given as "-" and sent on standard input          *)
(* and where the SQL goes: "stdout" or "ofile" (-o FILE).                  *)
(*                                                                         *)
(*   IoRef      what the property demands                                  *)
(*   IoMachine  the code: open every argument first, read the arguments    *)
(*              one after the other, hand complete lines (and the last     *)
(*              partial line, also after a read error) to the loop of      *)
(*              Cli.tla; after a read error report it and do not compile   *)
(*              the pending text                                           *)
(*                                                                         *)
(* Under-specified and left open: what is printed for text that was read   *)
(* before a read error, or that is in files before one that cannot be      *)
(* opened (the code opens every file first and prints nothing then).  The property demands a non-zero exit status and   *)
(* that nothing is printed that the script does not demand: the output     *)
(* must be, in order, the SQL of the first k statements that were read     *)
(* completely (with their semicolon), for some k, possibly followed by one *)
(* more block for the pending text.  The harness reports k smaller than    *)
(* what IoMachine prints as conformance drift, not as a violation.         *)
(***************************************************************************)
EXTENDS Cli

VARIABLE io

IoKinds == {"LetOk", "QOk", "QBad"}
Eligible(c) == Complete(c) /\ \A i \in 1..NStmts(c) : Kind(c, i) \in IoKinds

Faults(chan) ==
  CASE chan = "stdin" -> {"none"}
    [] chan = "file" -> {"none", "dir0", "miss0"}
    [] chan = "files" -> {"none", "dir0", "dir1", "dir2", "dir3", "miss0", "miss1", "miss2", "miss3", "dash1", "dash2", "dash3"}

Min(a, b) == IF a < b THEN a ELSE b
IoChoices(c, o) ==
  LET L == Len(Text(c)) IN
  CASE Len(o) = 0 -> {"stdin", "file", "files"}
    [] Len(o) = 1 -> IF o[1] = "files" THEN 0..L ELSE {0}
    [] Len(o) = 2 -> IF o[1] = "files" THEN {o[2], Min(o[2] + 2, L), L} ELSE {0}
    [] Len(o) = 3 -> Faults(o[1])
    [] Len(o) = 4 -> IF o[4] = "none" THEN {"stdout", "ofile"} ELSE {"stdout"}
    [] OTHER -> {}
IoComplete(o) == Len(o) = 5

---------------------------------------------------------------------------
(* the arguments                                                           *)

TextArg(d, dash) == [k |-> "text", d |-> d, dash |-> dash]
DirArg == [k |-> "dir", d |-> <<>>, dash |-> FALSE]
MissArg == [k |-> "miss", d |-> <<>>, dash |-> FALSE]

FaultKind(f) == CASE f \in {"dir0", "dir1", "dir2", "dir3"} -> "dir" [] f \in {"miss0", "miss1", "miss2", "miss3"} -> "miss"
                  [] f \in {"dash1", "dash2", "dash3"} -> "dash" [] OTHER -> "none"
FaultPos(f) == CASE f \in {"dir0", "miss0"} -> 0 [] f \in {"dir1", "miss1", "dash1"} -> 1
                 [] f \in {"dir2", "miss2", "dash2"} -> 2 [] f \in {"dir3", "miss3", "dash3"} -> 3 [] OTHER -> 0

InsertAt(s, j, x) == SubSeq(s, 1, j) \o <<x>> \o SubSeq(s, j + 1, Len(s))

\* what is on the command line: a sequence of arguments; <<>> = standard input only
Args(txt, o) ==
  LET chan == o[1] f == o[4] IN
  CASE chan = "stdin" -> <<>>
    [] chan = "file" -> (CASE f = "none" -> <<TextArg(txt, FALSE)>> [] f = "dir0" -> <<DirArg>> [] f = "miss0" -> <<MissArg>>)
    [] chan = "files" ->
         LET ps == <<SubSeq(txt, 1, o[2]), SubSeq(txt, o[2] + 1, o[3]), SubSeq(txt, o[3] + 1, Len(txt))>>
             plain == [j \in 1..3 |-> TextArg(ps[j], f = "dash" \o ToString(j))]
         IN CASE FaultKind(f) = "dir" -> InsertAt(plain, FaultPos(f), DirArg)
              [] FaultKind(f) = "miss" -> InsertAt(plain, FaultPos(f), MissArg)
              [] OTHER -> plain

OpenFails(args) == \E j \in DOMAIN args : args[j].k = "miss"
FirstDir(args) == IF \E j \in DOMAIN args : args[j].k # "text"
                  THEN CHOOSE j \in DOMAIN args : args[j].k # "text" /\ \A i \in 1..(j - 1) : args[i].k = "text"
                  ELSE 0
RECURSIVE CatText(_, _, _)
CatText(args, i, upto) == IF i > upto THEN <<>> ELSE args[i].d \o CatText(args, i + 1, upto)

\* the symbols that can be read before the first argument that cannot (a directory or a missing path), and whether
\* there is such an argument
Readable(txt, args) ==
  IF args = <<>> THEN [text |-> txt, err |-> FALSE]
  ELSE IF FirstDir(args) = 0 THEN [text |-> CatText(args, 1, Len(args)), err |-> FALSE]
  ELSE [text |-> CatText(args, 1, FirstDir(args) - 1), err |-> TRUE]

---------------------------------------------------------------------------
(* reference                                                               *)

NSemis(txt) == Cardinality({i \in DOMAIN txt : txt[i] = Semi})

\* outputs owed for the first n statements, every one of them terminated
RefFirst(script, n) == RefFrom(SubSeq(script, 1, n), 1, TRUE, <<>>, [out |-> <<>>, fails |-> 0])

IsPrefixOf(a, b) == Len(a) <= Len(b) /\ SubSeq(b, 1, Len(a)) = a

\* obs = [blocks, exit |-> 0 | 1, errLines |-> n]; a block is [alts |-> the (statement, lets in scope) pairs whose SQL
\* it is]: several when a let is shadowed or unused (the SQL does not tell which lets were in scope), none when the block
\* is no statement's SQL at all
Unrecognised == [alts |-> <<>>]
Block(b) == [alts |-> <<b>>]
Blocks(bs) == [i \in DOMAIN bs |-> Block(bs[i])]
MatchesOne(ob, exp) == \E i \in DOMAIN ob.alts : ob.alts[i] = exp
\* the observed blocks are the expected ones, in order
Matches(obs, exp) == Len(obs) = Len(exp) /\ \A i \in DOMAIN exp : MatchesOne(obs[i], exp[i])
MatchesPrefix(obs, exp) == Len(obs) <= Len(exp) /\ \A i \in DOMAIN obs : MatchesOne(obs[i], exp[i])
IoJudge(c, o, obs) ==
  LET txt == Text(c)
      args == Args(txt, o)
      rd == Readable(txt, args)
      script == Script(c)
  IN IF rd.err
     THEN LET owed == RefFirst(script, NSemis(rd.text)).out
              nb == Len(obs.blocks)
          IN IF obs.exit = 0 THEN "exit status 0 although the input could not be read completely"
             ELSE IF obs.errLines = 0 THEN "the input could not be read completely and nothing is on standard error"
             ELSE IF ~(MatchesPrefix(obs.blocks, owed)
                       \/ (nb = Len(owed) + 1 /\ Matches(SubSeq(obs.blocks, 1, nb - 1), owed)))
                  THEN "with unreadable input standard output is not the SQL of the first statements that could be read completely"
             ELSE "ok"
     ELSE LET r == CliRef(c)
              realFails == Cardinality({i \in DOMAIN script : script[i] \in {"LetBad", "QBad"}})
              open == (\E i \in 1..(Len(script) - (IF LastTerminated(c) THEN 0 ELSE 1)) : script[i] = "Empty")
                      \/ (~LastTerminated(c) /\ script[Len(script)] = "LetOk")
          IN IF ~Matches(obs.blocks, r.out)
             THEN "standard output is not the library's SQL for each query statement with the accepted lets in scope"
             ELSE IF realFails > 0 /\ obs.exit = 0 THEN "a statement failed but the exit status is 0"
             ELSE IF realFails = 0 /\ ~open /\ obs.exit # 0 THEN "no statement failed and all input was read but the exit status is not 0"
             ELSE IF obs.errLines < realFails THEN "fewer lines on standard error than failed statements"
             ELSE "ok"

---------------------------------------------------------------------------
(* the machine                                                             *)

IoMachine(c, o) ==
  LET txt == Text(c)
      args == Args(txt, o)
      script == Script(c)
      ms0 == [st |-> [prelude |-> <<>>, out |-> <<>>, fails |-> 0, broken |-> FALSE], pending |-> <<>>]
  IN IF OpenFails(args) THEN [blocks |-> <<>>, exit |-> 1, errLines |-> 1]
     ELSE LET rd == Readable(txt, args)
              ms == RunLines(ms0, Lines(rd.text), 1, script)
          IN IF rd.err
             THEN [blocks |-> Blocks(ms.st.out), exit |-> 1, errLines |-> ms.st.fails + 2]    \* the read error, and main's summary
             ELSE LET st == Handle(ms.st, ms.pending, script, TRUE) IN
                  [blocks |-> Blocks(st.out), exit |-> IF st.fails > 0 THEN 1 ELSE 0,
                   errLines |-> IF st.fails > 0 THEN st.fails + 1 ELSE 0]                \* one line per failure, and main's summary

---------------------------------------------------------------------------
IoInit == ch = <<>> /\ io = <<>>
IoNext ==
  \/ /\ ~Complete(ch) /\ \E x \in Choices(ch) : ch' = Append(ch, x)
     /\ UNCHANGED io
  \/ /\ Eligible(ch) /\ \E x \in IoChoices(ch, io) : io' = Append(io, x)
     /\ UNCHANGED ch

\* design level: whatever the channel, the cut and the fault, the machine's behaviour is one the property accepts,
\* and without a fault it does not depend on the channel at all
IoMachineMeetsRef ==
  (Complete(ch) /\ IoComplete(io)) =>
    LET m == IoMachine(ch, io) IN
    /\ IoJudge(ch, io, m) = "ok"
    /\ io[4] \in {"none", "dash1", "dash2", "dash3"} => m.blocks = Blocks(CliRef(ch).out)

\* the judge is not vacuous: it rejects what the property forbids
IoJudgeRejects ==
  (Complete(ch) /\ IoComplete(io)) =>
    LET m == IoMachine(ch, io)
        args == Args(Text(ch), io) IN
    /\ (OpenFails(args) \/ Readable(Text(ch), args).err) => IoJudge(ch, io, [m EXCEPT !.exit = 0]) # "ok"
    /\ IoJudge(ch, io, [m EXCEPT !.blocks = Append(@, Unrecognised)]) # "ok" \/ Readable(Text(ch), args).err
    /\ IoJudge(ch, io, [m EXCEPT !.blocks = @ \o <<Unrecognised, Unrecognised>>]) # "ok"
    /\ (m.blocks # <<>> /\ ~Readable(Text(ch), args).err) => IoJudge(ch, io, [m EXCEPT !.blocks = Tail(@)]) # "ok"

ArgOut(a) == [k |-> a.k, d |-> a.d, dash |-> a.dash]
EmitIoCase ==
  (Complete(ch) /\ IoComplete(io)) =>
    LET args == Args(Text(ch), io) IN
    PrintT("CASE " \o ToJson([script |-> Script(ch), text |-> Text(ch), ch |-> ch, io |-> io,
                              args |-> [j \in DOMAIN args |-> ArgOut(args[j])],
                              model |-> IoMachine(ch, io)]))
=============================================================================
