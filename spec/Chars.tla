------------------------------- MODULE Chars -------------------------------
(***************************************************************************)
(* Character classes of PQL source text.                                   *)
(*                                                                         *)
(* TLC cannot index into strings, so source text is modelled as a sequence *)
(* of class symbols.  A symbol stands either for one concrete character    *)
(* (the letters that occur in the keywords and/or/in/by and in escapes, so *)
(* that keywords can be spelled inside the model) or for a class of        *)
(* characters that the language treats alike.  The harness maps every      *)
(* symbol to concrete bytes (several representatives per class, chosen by  *)
(* VERIF_SEED) and maps real bytes back to symbols rune by rune.           *)
(***************************************************************************)
EXTENDS Naturals, Sequences

\* concrete letters
KwLetters == {"a", "b", "d", "i", "n", "o", "r", "y"}
\* "E" = e or E, "X" = x or X, "t" = t, "H" = c f A B C D F, "L" = any other ASCII letter
Alpha     == KwLetters \cup {"E", "X", "t", "H", "L"}
Digits    == {"0", "9"}                       \* "9" = any of 1..9
HexDigits == Digits \cup {"a", "b", "d", "E", "H"}
IdentStart == Alpha \cup {"US", "DOLLAR"}      \* _ and $
IdentCont  == Alpha \cup Digits \cup {"US"}
Spaces    == {"WS", "NL"}                     \* "WS" = space, tab, CR, FF, VT, U+0085, U+00A0, U+2028 ...

\* punctuation symbols: one character each
\*  DOT . COMMA , PIPE | LP ( RP ) LB [ RB ] PLUS + MINUS - STAR * SLASH / PCT %
\*  EQ = BANG ! TILDE ~ LT < GT > SEMI ; SQ ' DQ " BT ` BS \
\* other symbols:
\*  "U"   a non-ASCII, non-space rune (valid UTF-8), e.g. e-acute, a CJK letter, an emoji
\*  "BAD" one byte that is not valid UTF-8
\*  "O"   an ASCII character with no meaning in PQL: NUL # & @ { } ^ ? : and control characters

AllClasses ==
  Alpha \cup Digits \cup Spaces \cup
  {"US", "DOLLAR", "DOT", "COMMA", "PIPE", "LP", "RP", "LB", "RB", "PLUS", "MINUS",
   "STAR", "SLASH", "PCT", "EQ", "BANG", "TILDE", "LT", "GT", "SEMI", "SQ", "DQ",
   "BT", "BS", "U", "BAD", "O"}

At(s, i) == IF i >= 1 /\ i <= Len(s) THEN s[i] ELSE "EOF"

\* length of the longest run of symbols from S starting at position i
RECURSIVE Run(_, _, _)
Run(s, i, S) == IF i <= Len(s) /\ s[i] \in S THEN 1 + Run(s, i + 1, S) ELSE 0

\* <<i, i+1, ..., j>>
Range(i, j) == [k \in 1..(j - i + 1) |-> i + k - 1]
=============================================================================
