------------------------------ MODULE ParseCheck ------------------------------
(***************************************************************************)
(* Design-level theorems about the parser model (ParseMachine) over the    *)
(* generator families (GenProg):                                           *)
(*   ParseOfPrintIsTree  C07: parsing the tokens of a generated program    *)
(*                       succeeds and yields its tree                      *)
(*   AcceptsOnlyAccounted C08: every corrupted token sequence that the     *)
(*                       parser model accepts is accounted for by the tree *)
(*                       it returns (Grammar!Accounts)                     *)
(*   PlantedParse        planted parse-level violations are rejected       *)
(* The harness compares the model's verdict (accept / reject) with the     *)
(* real parser's on every case (reported as conformance drift only).       *)
(***************************************************************************)
EXTENDS GenProg, ParseMachine

RECURSIVE UnflagE(_)
UnflagE(e) ==
  CASE e.k = "Bin" -> [e EXCEPT !.x = UnflagE(e.x), !.y = UnflagE(e.y)]
    [] e.k = "In" -> [e EXCEPT !.x = UnflagE(e.x), !.vals = [i \in DOMAIN e.vals |-> UnflagE(e.vals[i])]]
    [] e.k \in {"Un", "Paren"} -> [e EXCEPT !.x = UnflagE(e.x)]
    [] e.k = "Index" -> [e EXCEPT !.x = UnflagE(e.x), !.index = UnflagE(e.index)]
    [] e.k = "Call" -> [e EXCEPT !.tc = FALSE, !.args = [i \in DOMAIN e.args |-> UnflagE(e.args[i])]]
    [] OTHER -> e
UnflagCol(c) == [c EXCEPT !.x = IF c.x = None THEN None ELSE UnflagE(c.x)]
UnflagTerm(t) == [t EXCEPT !.x = UnflagE(t.x)]
RECURSIVE UnflagTab(_)
UnflagOp(op) ==
  CASE op.k = "Where" -> [op EXCEPT !.pred = UnflagE(op.pred)]
    [] op.k = "Sort" -> [op EXCEPT !.terms = [i \in DOMAIN op.terms |-> UnflagTerm(op.terms[i])]]
    [] op.k = "Take" -> [op EXCEPT !.n = UnflagE(op.n)]
    [] op.k = "Top" -> [op EXCEPT !.n = UnflagE(op.n), !.col = UnflagTerm(op.col)]
    [] op.k \in {"Project", "Extend"} -> [op EXCEPT !.cols = [i \in DOMAIN op.cols |-> UnflagCol(op.cols[i])]]
    [] op.k = "Summarize" -> [op EXCEPT !.cby = FALSE, !.cols = [i \in DOMAIN op.cols |-> UnflagCol(op.cols[i])],
                                         !.groupBy = [i \in DOMAIN op.groupBy |-> UnflagCol(op.groupBy[i])]]
    [] op.k = "Join" -> [op EXCEPT !.right = UnflagTab(op.right), !.conds = [i \in DOMAIN op.conds |-> UnflagE(op.conds[i])]]
    [] op.k = "Render" -> [op EXCEPT !.props = [i \in DOMAIN op.props |-> [op.props[i] EXCEPT !.value = UnflagE(op.props[i].value)]]]
    [] OTHER -> op
UnflagTab(t) == [t EXCEPT !.ops = [i \in DOMAIN t.ops |-> UnflagOp(t.ops[i])]]
UnflagStmt(s) == IF s.k = "Let" THEN [s EXCEPT !.x = UnflagE(s.x)] ELSE UnflagTab(s)

ParseOfPrintIsTree ==
  (Complete(ch) /\ Family \in TreeFamilies /\ (Family = "plant" => PlantParses(ch) = "ok")) =>
    LET items == BuildOf(Family, ch)
        r == ParseProgram(Strip(Toks(items)))
        want == [i \in DOMAIN Statements(items) |-> UnflagStmt(Statements(items)[i])]
    IN r.ok /\ r.tree = want

PlantedParse ==
  (Complete(ch) /\ Family = "plant" /\ PlantParses(ch) = "err") =>
    ~ParseProgram(Strip(Toks(BuildOf(Family, ch)))).ok

AcceptsOnlyAccounted ==
  (Complete(ch) /\ Family \in {"corrupt", "stress"}) =>
    LET ts == IF Family = "corrupt" THEN CorruptToks(ch) ELSE StressToks(ch)
        r == ParseProgram(ts)
    IN r.ok => Accounts(ts, r.tree)

\* the model's verdict for the harness
EmitVerdict ==
  (Complete(ch) /\ Family \in {"corrupt", "stress"}) =>
    LET ts == IF Family = "corrupt" THEN CorruptToks(ch) ELSE StressToks(ch) IN
    PrintT("CASE " \o ToJson([fam |-> Family, ch |-> ch, toks |-> ts, xp |-> "open", xc |-> "open",
                              mp |-> IF ParseProgram(ts).ok THEN "ok" ELSE "err"]))
=============================================================================
