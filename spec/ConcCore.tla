------------------------------ MODULE ConcCore ------------------------------
(***************************************************************************)
(* C14: concurrent calls of pql.Compile.  Processes are goroutines, each   *)
(* issuing a sequence of calls; steps are the linearization points of      *)
(* CompileOptions.Compile and initKnownFunctions (the hook points of    *)
(* the verif build):                                                       *)
(*   Enter        the call starts (Parse is pure and local)                *)
(*   CopyStart/   the caller's parameter map is read into a fresh scope    *)
(*   CopyEnd                                                               *)
(*   BindLet      a let statement writes its value into the scope          *)
(*   OnceEnter    initKnownFunctions: sync.Once.Do is entered; the first   *)
(*                caller runs InitStart .. InitEnd (the table is written), *)
(*                every other caller waits until it has finished           *)
(*   TableRead    the function table is read                               *)
(*   Return       the result is returned                                   *)
(* Accesses that take time (table initialisation, copying the map, the     *)
(* table read, a scope write) are two steps, so that overlapping accesses  *)
(* are reachable states and a data race is a state predicate.              *)
(*                                                                         *)
(* Negative controls (must violate the invariants): UseOnce = FALSE        *)
(* ("if m == nil" instead of sync.Once), CopyParams = FALSE (the scope     *)
(* aliases the caller's map).                                              *)
(***************************************************************************)
EXTENDS Integers, Sequences, FiniteSets

CONSTANTS G,           \* goroutines
          Calls,       \* Calls[g]: sequence of calls [lets, tabs, map]: number of let statements,
                       \* number of function-table look-ups, caller's parameter map ("nil" or a map id)
          Maps,        \* ids of caller-owned parameter maps
          UseOnce, CopyParams

VARIABLES once,        \* "fresh" | "running" | "done"
          table,       \* "nil" | "set"
          pc, ci,      \* per goroutine: program counter, index of the current call
          left,        \* per goroutine: <<lets left, table look-ups left>>
          scopeOf,     \* per goroutine: "own" | map id   (which map object is the scope)
          content,     \* per map id: set of names it holds (caller's maps start with {"p"})
          scopeOwn,    \* per goroutine: names in its private scope
          results,     \* per goroutine: sequence of results (set of names in scope at Return)
          initBy,      \* goroutines that ran the initialisation
          hist         \* schedule so far: sequence of <<g, label>>

vars == <<once, table, pc, ci, left, scopeOf, content, scopeOwn, results, initBy, hist>>
view == <<once, table, pc, ci, left, scopeOf, content, scopeOwn, results, initBy>>

Call(g) == Calls[g][ci[g]]
Step(g, label) == hist' = Append(hist, <<g, label>>)

Init ==
  /\ once = "fresh" /\ table = "nil"
  /\ pc = [g \in G |-> IF Calls[g] = <<>> THEN "Done" ELSE "Enter"]
  /\ ci = [g \in G |-> 1]
  /\ left = [g \in G |-> <<0, 0>>]
  /\ scopeOf = [g \in G |-> "own"]
  /\ content = [m \in Maps |-> {"p"}]
  /\ scopeOwn = [g \in G |-> {}]
  /\ results = [g \in G |-> <<>>]
  /\ initBy = {}
  /\ hist = <<>>

Goto(g, l) == pc' = [pc EXCEPT ![g] = l]

\* what comes after the parameter copy / a let / a look-up: remaining lets, then look-ups, then Return
NextWork(g, l) == IF l[1] > 0 THEN "BindLet" ELSE IF l[2] > 0 THEN "OnceEnter" ELSE "Return"

Enter(g) ==
  /\ pc[g] = "Enter"
  /\ left' = [left EXCEPT ![g] = <<Call(g).lets, Call(g).tabs>>]
  /\ Goto(g, "CopyStart") /\ Step(g, "Enter")
  /\ UNCHANGED <<once, table, ci, scopeOf, content, scopeOwn, results, initBy>>

CopyStart(g) ==
  /\ pc[g] = "CopyStart"
  /\ Goto(g, "CopyEnd") /\ Step(g, "CopyStart")
  /\ UNCHANGED <<once, table, ci, left, scopeOf, content, scopeOwn, results, initBy>>

CopyEnd(g) ==
  /\ pc[g] = "CopyEnd"
  /\ IF CopyParams \/ Call(g).map = "nil"
     THEN /\ scopeOf' = [scopeOf EXCEPT ![g] = "own"]
          /\ scopeOwn' = [scopeOwn EXCEPT ![g] = IF Call(g).map = "nil" THEN {} ELSE content[Call(g).map]]
     ELSE /\ scopeOf' = [scopeOf EXCEPT ![g] = Call(g).map]     \* aliasing (negative control)
          /\ UNCHANGED scopeOwn
  /\ Goto(g, NextWork(g, left[g])) /\ Step(g, "CopyEnd")
  /\ UNCHANGED <<once, table, ci, left, content, results, initBy>>

\* a let statement: the write takes two steps (BindLet, BindDone)
BindLet(g) ==
  /\ pc[g] = "BindLet"
  /\ Goto(g, "BindDone") /\ Step(g, "BindLet")
  /\ UNCHANGED <<once, table, ci, left, scopeOf, content, scopeOwn, results, initBy>>

BindDone(g) ==
  /\ pc[g] = "BindDone"
  /\ LET name == "x" IN
     IF scopeOf[g] = "own"
     THEN scopeOwn' = [scopeOwn EXCEPT ![g] = @ \cup {name}] /\ UNCHANGED content
     ELSE content' = [content EXCEPT ![scopeOf[g]] = @ \cup {name}] /\ UNCHANGED scopeOwn
  /\ left' = [left EXCEPT ![g] = <<@[1] - 1, @[2]>>]
  /\ Goto(g, NextWork(g, <<left[g][1] - 1, left[g][2]>>)) /\ Step(g, "BindDone")
  /\ UNCHANGED <<once, table, ci, scopeOf, results, initBy>>

\* initKnownFunctions
OnceEnter(g) ==
  /\ pc[g] = "OnceEnter"
  /\ IF UseOnce
     THEN \/ once = "fresh" /\ once' = "running" /\ Goto(g, "InitStart")
          \/ once = "done" /\ UNCHANGED once /\ Goto(g, "TableRead")      \* "running": blocked in Do
     ELSE \/ table = "nil" /\ UNCHANGED once /\ Goto(g, "InitStart")      \* if m == nil { ... }
          \/ table = "set" /\ UNCHANGED once /\ Goto(g, "TableRead")
  /\ Step(g, "OnceEnter")
  /\ UNCHANGED <<table, ci, left, scopeOf, content, scopeOwn, results, initBy>>

InitStart(g) ==
  /\ pc[g] = "InitStart"
  /\ initBy' = initBy \cup {g}
  /\ Goto(g, "InitEnd") /\ Step(g, "InitStart")
  /\ UNCHANGED <<once, table, ci, left, scopeOf, content, scopeOwn, results>>

InitEnd(g) ==
  /\ pc[g] = "InitEnd"
  /\ table' = "set"
  /\ once' = IF UseOnce THEN "done" ELSE once
  /\ Goto(g, "TableRead") /\ Step(g, "InitEnd")
  /\ UNCHANGED <<ci, left, scopeOf, content, scopeOwn, results, initBy>>

TableRead(g) ==
  /\ pc[g] = "TableRead"
  /\ left' = [left EXCEPT ![g] = <<@[1], @[2] - 1>>]
  /\ Goto(g, NextWork(g, <<left[g][1], left[g][2] - 1>>)) /\ Step(g, "TableRead")
  /\ UNCHANGED <<once, table, ci, scopeOf, content, scopeOwn, results, initBy>>

Return(g) ==
  /\ pc[g] = "Return"
  /\ results' = [results EXCEPT ![g] = Append(@, IF scopeOf[g] = "own" THEN scopeOwn[g] ELSE content[scopeOf[g]])]
  /\ IF ci[g] < Len(Calls[g])
     THEN ci' = [ci EXCEPT ![g] = @ + 1] /\ Goto(g, "Enter")
     ELSE UNCHANGED ci /\ Goto(g, "Done")
  /\ Step(g, "Return")
  /\ UNCHANGED <<once, table, left, scopeOf, content, scopeOwn, initBy>>

Next == \E g \in G : Enter(g) \/ CopyStart(g) \/ CopyEnd(g) \/ BindLet(g) \/ BindDone(g) \/ OnceEnter(g)
                     \/ InitStart(g) \/ InitEnd(g) \/ TableRead(g) \/ Return(g)

Spec == Init /\ [][Next]_vars /\ WF_vars(Next)

---------------------------------------------------------------------------
(* properties                                                              *)

AllDone == \A g \in G : pc[g] = "Done"

\* accesses in progress
WritingTable(g) == pc[g] = "InitEnd"                       \* between InitStart and InitEnd
ReadingTable(g) == pc[g] = "TableRead"
ReadingMap(g, m) == pc[g] = "CopyEnd" /\ Call(g).map = m   \* between CopyStart and CopyEnd
WritingMap(g, m) == pc[g] = "BindDone" /\ scopeOf[g] = m

NoRace ==
  \A g1, g2 \in G : g1 # g2 =>
    /\ ~(WritingTable(g1) /\ (WritingTable(g2) \/ ReadingTable(g2)))
    /\ \A m \in Maps : ~(WritingMap(g1, m) /\ (WritingMap(g2, m) \/ ReadingMap(g2, m)))

InitOnce == Cardinality(initBy) <= 1
TableSetWhenRead == \A g \in G : ReadingTable(g) => table = "set" \/ \E h \in G : WritingTable(h)
ParamsUnchanged == \A m \in Maps : content[m] = {"p"}

\* the result of a call depends only on its own source and parameter map
Expected(c) == (IF c.map = "nil" THEN {} ELSE {"p"}) \cup (IF c.lets > 0 THEN {"x"} ELSE {})
ResultIsFunctionOfInput ==
  \A g \in G : \A n \in DOMAIN results[g] : results[g][n] = Expected(Calls[g][n])

\* no goroutine waits for ever: the only blocking point is Once.Do while the initialisation runs
NoDeadlock == AllDone \/ ENABLED Next
Termination == <>AllDone
=============================================================================
