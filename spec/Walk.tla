--------------------------------- MODULE Walk ---------------------------------
(***************************************************************************)
(* parser.Walk (parser/ast.go): depth-first traversal with an explicit     *)
(* stack, one case per node type, children pushed in reverse so that they  *)
(* are popped in source order; the visitor's answer decides whether the    *)
(* children are pushed.                                                    *)
(*                                                                         *)
(*   Children(n)   declarative: the child relation of the tree (all nodes  *)
(*                 reachable through the exported fields; the function     *)
(*                 name of a call and the kind of a join are not nodes of  *)
(*                 the walk; a render property is represented by its name  *)
(*                 and value)                                              *)
(*   WalkMachine   operational: stack, pop, visit, push                    *)
(*                                                                         *)
(* A node is [p, t, n]: path (sequence of field names / indexes, the same  *)
(* paths Toks uses), type name as in the Go package, and the tree record.  *)
(* Checked by TLC on every generated program (C11): every reachable node   *)
(* is visited exactly once, parents before children, the stack never holds *)
(* an absent node, and with the visitor answering false at any one node    *)
(* exactly its strict descendants are skipped.                             *)
(***************************************************************************)
EXTENDS GenProg

N(p, t, n) == [p |-> p, t |-> t, n |-> n]
IdxStr(i) == ToString(i - 1)

ExprType(e) ==
  CASE e.k = "QIdent" -> "QualifiedIdent" [] e.k = "Lit" -> "BasicLit" [] e.k = "Un" -> "UnaryExpr"
    [] e.k = "Bin" -> "BinaryExpr" [] e.k = "In" -> "InExpr" [] e.k = "Paren" -> "ParenExpr"
    [] e.k = "Call" -> "CallExpr" [] e.k = "Index" -> "IndexExpr" [] OTHER -> "?"
OpType(o) == IF o.k \in {"Count", "Where", "Sort", "Take", "Top", "Project", "Extend", "Summarize", "Join", "As", "Render"}
             THEN o.k \o "Operator" ELSE "?"

ExprNode(e, p) == N(p, ExprType(e), e)
IdentNode(id, p) == N(p, "Ident", id)

SeqOf(f, n) == [i \in 1..n |-> f[i]]

\* children in source order
Children(x) ==
  LET p == x.p n == x.n IN
  CASE x.t = "Ident" -> <<>>
    [] x.t = "BasicLit" -> <<>>
    [] x.t = "QualifiedIdent" -> [i \in DOMAIN n.parts |-> IdentNode(n.parts[i], p \o <<"parts", IdxStr(i)>>)]
    [] x.t \in {"UnaryExpr", "ParenExpr"} -> <<ExprNode(n.x, p \o <<"x">>)>>
    [] x.t = "BinaryExpr" -> <<ExprNode(n.x, p \o <<"x">>), ExprNode(n.y, p \o <<"y">>)>>
    [] x.t = "InExpr" -> <<ExprNode(n.x, p \o <<"x">>)>> \o [i \in DOMAIN n.vals |-> ExprNode(n.vals[i], p \o <<"vals", IdxStr(i)>>)]
    [] x.t = "CallExpr" -> [i \in DOMAIN n.args |-> ExprNode(n.args[i], p \o <<"args", IdxStr(i)>>)]
    [] x.t = "IndexExpr" -> <<ExprNode(n.x, p \o <<"x">>), ExprNode(n.index, p \o <<"index">>)>>
    [] x.t = "LetStatement" -> <<IdentNode(n.name, p \o <<"name">>), ExprNode(n.x, p \o <<"x">>)>>
    [] x.t = "TabularExpr" -> <<N(p \o <<"source">>, "TableRef", n)>>
                              \o [i \in DOMAIN n.ops |-> N(p \o <<"ops", IdxStr(i)>>, OpType(n.ops[i]), n.ops[i])]
    [] x.t = "TableRef" -> <<IdentNode(n.table, p \o <<"table">>)>>
    [] x.t = "CountOperator" -> <<>>
    [] x.t = "WhereOperator" -> <<ExprNode(n.pred, p \o <<"pred">>)>>
    [] x.t = "SortOperator" -> [i \in DOMAIN n.terms |-> N(p \o <<"terms", IdxStr(i)>>, "SortTerm", n.terms[i])]
    [] x.t = "SortTerm" -> <<ExprNode(n.x, p \o <<"x">>)>>
    [] x.t = "TakeOperator" -> <<ExprNode(n.n, p \o <<"n">>)>>
    [] x.t = "TopOperator" -> <<ExprNode(n.n, p \o <<"n">>), N(p \o <<"col">>, "SortTerm", n.col)>>
    [] x.t = "ProjectOperator" -> [i \in DOMAIN n.cols |-> N(p \o <<"cols", IdxStr(i)>>, "ProjectColumn", n.cols[i])]
    [] x.t = "ExtendOperator" -> [i \in DOMAIN n.cols |-> N(p \o <<"cols", IdxStr(i)>>, "ExtendColumn", n.cols[i])]
    [] x.t = "SummarizeOperator" ->
         [i \in DOMAIN n.cols |-> N(p \o <<"cols", IdxStr(i)>>, "SummarizeColumn", n.cols[i])]
         \o [i \in DOMAIN n.groupBy |-> N(p \o <<"groupBy", IdxStr(i)>>, "SummarizeColumn", n.groupBy[i])]
    [] x.t \in {"ProjectColumn", "ExtendColumn", "SummarizeColumn"} ->
         (IF n.name # None THEN <<IdentNode(n.name, p \o <<"name">>)>> ELSE <<>>)
         \o (IF n.x # None THEN <<ExprNode(n.x, p \o <<"x">>)>> ELSE <<>>)
    [] x.t = "JoinOperator" -> <<N(p \o <<"right">>, "TabularExpr", n.right)>>
                               \o [i \in DOMAIN n.conds |-> ExprNode(n.conds[i], p \o <<"conds", IdxStr(i)>>)]
    [] x.t = "AsOperator" -> <<IdentNode(n.name, p \o <<"name">>)>>
    [] x.t = "RenderOperator" ->
         <<IdentNode(n.chart, p \o <<"chart">>)>>
         \o LET RECURSIVE Props(_)
                Props(i) == IF i > Len(n.props) THEN <<>>
                            ELSE <<IdentNode(n.props[i].name, p \o <<"props", IdxStr(i), "name">>),
                                   ExprNode(n.props[i].value, p \o <<"props", IdxStr(i), "value">>)>> \o Props(i + 1)
            IN Props(1)

Root(s, i) == N(<<IdxStr(i)>>, IF s.k = "Let" THEN "LetStatement" ELSE "TabularExpr", s)

\* declarative: all nodes reachable from a root, in preorder
RECURSIVE Reach(_)
Reach(x) ==
  LET cs == Children(x)
      RECURSIVE Cat(_)
      Cat(i) == IF i > Len(cs) THEN <<>> ELSE Reach(cs[i]) \o Cat(i + 1)
  IN <<x>> \o Cat(1)

IsPrefix(a, b) == Len(a) <= Len(b) /\ SubSeq(b, 1, Len(a)) = a
StrictDesc(k, x) == IsPrefix(k.p, x.p) /\ k.p # x.p

---------------------------------------------------------------------------
(* the machine: returns the visit log; falseAt = path at which the visitor *)
(* answers false (<<>> = never)                                            *)

Reverse(s) == [i \in DOMAIN s |-> s[Len(s) + 1 - i]]

RECURSIVE WalkRun(_, _, _)
WalkRun(stack, log, falseAt) ==
  IF stack = <<>> THEN log
  ELSE LET cur == stack[Len(stack)]
           rest == SubSeq(stack, 1, Len(stack) - 1)
           descend == cur.p # falseAt
       IN WalkRun(IF descend THEN rest \o Reverse(Children(cur)) ELSE rest, Append(log, cur), falseAt)

WalkMachine(root, falseAt) == WalkRun(<<root>>, <<>>, falseAt)

---------------------------------------------------------------------------
SeqSet(s) == {s[i] : i \in DOMAIN s}
Paths(s) == [i \in DOMAIN s |-> s[i].p]

WalkOK(root) ==
  LET full == WalkMachine(root, <<>>)
      reach == Reach(root)
  IN /\ SeqSet(full) = SeqSet(reach)                                         \* every node
     /\ Len(full) = Len(reach) /\ Cardinality(SeqSet(Paths(full))) = Len(full)   \* exactly once
     /\ \A i \in DOMAIN full : full[i].t # "?" /\ full[i].n # None                \* never an absent node
     /\ \A i, j \in DOMAIN full : StrictDesc(full[i], full[j]) => i < j           \* parents first
     /\ \A k \in DOMAIN full :                                                    \* pruning
          LET pruned == WalkMachine(root, full[k].p) IN
          SeqSet(pruned) = {x \in SeqSet(full) : ~StrictDesc(full[k], x)}

WalkCorrect ==
  (Complete(ch) /\ Family \in TreeFamilies /\ (Family = "plant" => PlantParses(ch) = "ok")) =>
    LET stmts == Statements(BuildOf(Family, ch)) IN \A i \in DOMAIN stmts : WalkOK(Root(stmts[i], i))

\* the expected visits for the harness: path and type of every node, in the machine's order
JoinPath(p) == LET RECURSIVE J(_) J(i) == IF i > Len(p) THEN "" ELSE (IF i > 1 THEN "/" ELSE "") \o p[i] \o J(i + 1) IN J(1)
EmitWalk ==
  (Complete(ch) /\ Family \in TreeFamilies /\ (Family = "plant" => PlantParses(ch) = "ok")) =>
    LET items == BuildOf(Family, ch)
        stmts == Statements(items)
        RECURSIVE All(_)
        All(i) == IF i > Len(stmts) THEN <<>> ELSE WalkMachine(Root(stmts[i], i), <<>>) \o All(i + 1)
        vs == All(1)
    IN PrintT("CASE " \o ToJson([fam |-> Family, ch |-> ch, toks |-> Toks(items), tree |-> stmts, xp |-> "ok",
                                 xc |-> CompilesOf(Family, ch),
                                 visits |-> [i \in DOMAIN vs |-> [p |-> JoinPath(vs[i].p), t |-> vs[i].t]]]))
=============================================================================
