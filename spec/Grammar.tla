------------------------------ MODULE Grammar ------------------------------
(***************************************************************************)
(* The documented PQL grammar as data: syntax trees (records that mirror   *)
(* parser/ast.go field for field), the precedence levels, canonical        *)
(* parenthesisation, and Toks: the token sequence a tree is written as.    *)
(*                                                                         *)
(*   program   := stmt (';' stmt)*          empty statements anywhere      *)
(*   stmt      := 'let' ident '=' expr | tabular                           *)
(*   tabular   := ident ('|' operator)*                                    *)
(*   operator  := count | where e | sort by term,.. | take e | top e by t  *)
(*              | project c,.. | extend c,.. | summarize [c,..] [by c,..]  *)
(*              | join [kind = k] '(' tabular ')' on e,.. | as n           *)
(*              | render n [with '(' p = e,.. ')']                         *)
(*   expr levels: or(0) < and(1) < comparisons, in(2) < + -(3) < * / %(4)  *)
(*              < sign(5) < indexing(6) < atoms, calls, parentheses(7)     *)
(*                                                                         *)
(* Every token carries the path of the node that owns it and its role in   *)
(* that node, so "the span of a node is the extent of its tokens" (C10)    *)
(* and "re-printing the tree gives back the token sequence" (C08) are      *)
(* statements about Toks.                                                  *)
(***************************************************************************)
EXTENDS Integers, Sequences, FiniteSets, TLC

None == [k |-> "None"]
Id(n)  == [name |-> n, quoted |-> FALSE]
QId(n) == [name |-> n, quoted |-> TRUE]
Col(n) == [k |-> "QIdent", parts |-> <<Id(n)>>]
Qual(a, b) == [k |-> "QIdent", parts |-> <<Id(a), Id(b)>>]
Num(v) == [k |-> "Lit", kind |-> "Number", value |-> v]
Str(v) == [k |-> "Lit", kind |-> "String", value |-> v]
Un(op, x) == [k |-> "Un", op |-> op, x |-> x]
Bin(op, x, y) == [k |-> "Bin", op |-> op, x |-> x, y |-> y]
InE(x, vals) == [k |-> "In", x |-> x, vals |-> vals]
Paren(x) == [k |-> "Paren", x |-> x]
Call(f, args) == [k |-> "Call", fn |-> f, args |-> args, tc |-> FALSE]
CallTC(f, args) == [k |-> "Call", fn |-> f, args |-> args, tc |-> TRUE]  \* written with a trailing comma
Index(x, i) == [k |-> "Index", x |-> x, index |-> i]

BinOps == {"Or", "And", "Eq", "NE", "LT", "LE", "GT", "GE", "CaseInsensitiveEq", "CaseInsensitiveNE",
           "Plus", "Minus", "Star", "Slash", "Mod"}

OpLevel(op) ==
  CASE op = "Or" -> 0
    [] op = "And" -> 1
    [] op \in {"Eq", "NE", "LT", "LE", "GT", "GE", "CaseInsensitiveEq", "CaseInsensitiveNE", "In"} -> 2
    [] op \in {"Plus", "Minus"} -> 3
    [] op \in {"Star", "Slash", "Mod"} -> 4

Lvl(e) ==
  CASE e.k = "Bin" -> OpLevel(e.op)
    [] e.k = "In" -> 2
    [] e.k = "Un" -> 5
    [] e.k = "Index" -> 6
    [] OTHER -> 7

\* x op y, where op may be the postfix test "In"
Mk(op, x, y) == IF op = "In" THEN InE(x, <<y>>) ELSE Bin(op, x, y)

Wrap(e, minLvl) == IF Lvl(e) >= minLvl THEN e ELSE Paren(e)

\* insert exactly the parentheses the grammar requires
RECURSIVE Canon(_)
Canon(e) ==
  CASE e.k = "Bin" -> [e EXCEPT !.x = Wrap(Canon(e.x), OpLevel(e.op)), !.y = Wrap(Canon(e.y), OpLevel(e.op) + 1)]
    [] e.k = "In" -> [e EXCEPT !.x = Wrap(Canon(e.x), 2), !.vals = [i \in DOMAIN e.vals |-> Canon(e.vals[i])]]
    [] e.k = "Un" -> [e EXCEPT !.x = Wrap(Canon(e.x), 6)]
    [] e.k = "Index" -> [e EXCEPT !.x = Wrap(Canon(e.x), 7), !.index = Canon(e.index)]
    [] e.k = "Paren" -> [e EXCEPT !.x = Canon(e.x)]
    [] e.k = "Call" -> [e EXCEPT !.args = [i \in DOMAIN e.args |-> Canon(e.args[i])]]
    [] OTHER -> e

\* the shape the grammar dictates (C07): operands of the right level everywhere
RECURSIVE PrecedenceRef(_)
PrecedenceRef(e) ==
  CASE e.k = "Bin" -> /\ e.op \in BinOps
                      /\ Lvl(e.x) >= OpLevel(e.op) /\ Lvl(e.y) > OpLevel(e.op)
                      /\ PrecedenceRef(e.x) /\ PrecedenceRef(e.y)
    [] e.k = "In" -> /\ Lvl(e.x) >= 2 /\ PrecedenceRef(e.x)
                     /\ Len(e.vals) >= 1
                     /\ \A i \in DOMAIN e.vals : PrecedenceRef(e.vals[i])
    [] e.k = "Un" -> e.op \in {"Plus", "Minus"} /\ Lvl(e.x) >= 6 /\ PrecedenceRef(e.x)
    [] e.k = "Index" -> Lvl(e.x) >= 7 /\ PrecedenceRef(e.x) /\ PrecedenceRef(e.index)
    [] e.k = "Paren" -> PrecedenceRef(e.x)
    [] e.k = "Call" -> \A i \in DOMAIN e.args : PrecedenceRef(e.args[i])
    [] e.k = "QIdent" -> Len(e.parts) >= 1
    [] e.k = "Lit" -> e.kind \in {"Number", "String"}
    [] OTHER -> FALSE

---------------------------------------------------------------------------
(* Printing                                                                *)

Tk(k, v, p, r) == [k |-> k, v |-> v, p |-> p, r |-> r]
Kw(v, p, r) == Tk("Identifier", v, p, r)
IdTok(id, p) == Tk(IF id.quoted THEN "QuotedIdentifier" ELSE "Identifier", id.name, p, "name")
Sub(p, f) == p \o "/" \o f
SubI(p, f, i) == p \o "/" \o f \o "/" \o ToString(i - 1)

RECURSIVE PartsToks(_, _, _)
PartsToks(parts, p, i) ==
  IF i > Len(parts) THEN <<>>
  ELSE (IF i > 1 THEN <<Tk("Dot", "", p, "dot")>> ELSE <<>>)
       \o <<IdTok(parts[i], SubI(p, "parts", i))>> \o PartsToks(parts, p, i + 1)

RECURSIVE ExprToks(_, _), ExprListToks(_, _, _, _)
ExprToks(e, p) ==
  CASE e.k = "QIdent" -> PartsToks(e.parts, p, 1)
    [] e.k = "Lit" -> <<Tk(e.kind, e.value, p, "value")>>
    [] e.k = "Un" -> <<Tk(e.op, "", p, "op")>> \o ExprToks(e.x, Sub(p, "x"))
    [] e.k = "Bin" -> ExprToks(e.x, Sub(p, "x")) \o <<Tk(e.op, "", p, "op")>> \o ExprToks(e.y, Sub(p, "y"))
    [] e.k = "In" -> ExprToks(e.x, Sub(p, "x")) \o <<Tk("In", "", p, "in"), Tk("LParen", "", p, "lparen")>>
                     \o ExprListToks(e.vals, p, "vals", 1) \o <<Tk("RParen", "", p, "rparen")>>
    [] e.k = "Paren" -> <<Tk("LParen", "", p, "lparen")>> \o ExprToks(e.x, Sub(p, "x")) \o <<Tk("RParen", "", p, "rparen")>>
    [] e.k = "Call" -> <<Tk("Identifier", e.fn, p, "fn"), Tk("LParen", "", p, "lparen")>>
                       \o ExprListToks(e.args, p, "args", 1)
                       \o (IF e.tc /\ Len(e.args) > 0 THEN <<Tk("Comma", "", p, "comma")>> ELSE <<>>)
                       \o <<Tk("RParen", "", p, "crparen")>>
    [] e.k = "Index" -> ExprToks(e.x, Sub(p, "x")) \o <<Tk("LBracket", "", p, "lbrack")>>
                        \o ExprToks(e.index, Sub(p, "index")) \o <<Tk("RBracket", "", p, "rbrack")>>
    [] OTHER -> <<Tk("Malformed", "", p, "malformed")>>

ExprListToks(es, p, f, i) ==
  IF i > Len(es) THEN <<>>
  ELSE (IF i > 1 THEN <<Tk("Comma", "", p, "comma")>> ELSE <<>>)
       \o ExprToks(es[i], SubI(p, f, i)) \o ExprListToks(es, p, f, i + 1)

TermToks(t, p) ==
  ExprToks(t.x, Sub(p, "x"))
  \o (IF t.ascGiven THEN <<Kw(IF t.asc THEN "asc" ELSE "desc", p, "ascdesc")>> ELSE <<>>)
  \o (IF t.nullsGiven THEN <<Kw("nulls", p, "nulls"), Kw(IF t.nullsFirst THEN "first" ELSE "last", p, "nulls")>> ELSE <<>>)

RECURSIVE TermsToks(_, _, _)
TermsToks(ts, p, i) ==
  IF i > Len(ts) THEN <<>>
  ELSE (IF i > 1 THEN <<Tk("Comma", "", p, "comma")>> ELSE <<>>)
       \o TermToks(ts[i], SubI(p, "terms", i)) \o TermsToks(ts, p, i + 1)

\* name [= expr]   (project)  /  [name =] expr   (extend, summarize)
ColToks(c, p) ==
  (IF c.name # None THEN <<IdTok(c.name, Sub(p, "name"))>> ELSE <<>>)
  \o (IF c.name # None /\ c.x # None THEN <<Tk("Assign", "", p, "assign")>> ELSE <<>>)
  \o (IF c.x # None THEN ExprToks(c.x, Sub(p, "x")) ELSE <<>>)

RECURSIVE ColsToks(_, _, _, _)
ColsToks(cs, p, f, i) ==
  IF i > Len(cs) THEN <<>>
  ELSE (IF i > 1 THEN <<Tk("Comma", "", p, "comma")>> ELSE <<>>)
       \o ColToks(cs[i], SubI(p, f, i)) \o ColsToks(cs, p, f, i + 1)

RECURSIVE PropsToks(_, _, _)
PropsToks(ps, p, i) ==
  IF i > Len(ps) THEN <<>>
  ELSE (IF i > 1 THEN <<Tk("Comma", "", p, "comma")>> ELSE <<>>)
       \o <<IdTok(ps[i].name, Sub(SubI(p, "props", i), "name")), Tk("Assign", "", SubI(p, "props", i), "assign")>>
       \o ExprToks(ps[i].value, Sub(SubI(p, "props", i), "value"))
       \o PropsToks(ps, p, i + 1)

RECURSIVE TabToks(_, _), OpToks(_, _), OpsToks(_, _, _)
OpToks(op, p) ==
  <<Tk("Pipe", "", p, "pipe")>> \o
  CASE op.k = "Count" -> <<Kw("count", p, "kw")>>
    [] op.k = "Where" -> <<Kw("where", p, "kw")>> \o ExprToks(op.pred, Sub(p, "pred"))
    [] op.k = "Sort" -> <<Kw("sort", p, "kw"), Tk("By", "", p, "kw")>> \o TermsToks(op.terms, p, 1)
    [] op.k = "Take" -> <<Kw("take", p, "kw")>> \o ExprToks(op.n, Sub(p, "n"))
    [] op.k = "Top" -> <<Kw("top", p, "kw")>> \o ExprToks(op.n, Sub(p, "n")) \o <<Tk("By", "", p, "by")>>
                       \o TermToks(op.col, Sub(p, "col"))
    [] op.k = "Project" -> <<Kw("project", p, "kw")>> \o ColsToks(op.cols, p, "cols", 1)
    [] op.k = "Extend" -> <<Kw("extend", p, "kw")>> \o ColsToks(op.cols, p, "cols", 1)
    [] op.k = "Summarize" ->
         <<Kw("summarize", p, "kw")>> \o ColsToks(op.cols, p, "cols", 1)
         \o (IF op.by /\ op.cby /\ Len(op.cols) > 0 THEN <<Tk("Comma", "", p, "comma")>> ELSE <<>>)
         \o (IF op.by THEN <<Tk("By", "", p, "sby")>> \o ColsToks(op.groupBy, p, "groupBy", 1) ELSE <<>>)
    [] op.k = "Join" ->
         <<Kw("join", p, "kw")>>
         \o (IF op.flavor # None
             THEN <<Kw("kind", p, "kind"), Tk("Assign", "", p, "kindassign"), IdTok(op.flavor, Sub(p, "flavor"))>>
             ELSE <<>>)
         \o <<Tk("LParen", "", p, "lparen")>> \o TabToks(op.right, Sub(p, "right")) \o <<Tk("RParen", "", p, "rparen")>>
         \o <<Kw("on", p, "on")>> \o ExprListToks(op.conds, p, "conds", 1)
    [] op.k = "As" -> <<Kw("as", p, "kw"), IdTok(op.name, Sub(p, "name"))>>
    [] op.k = "Render" ->
         <<Kw("render", p, "kw"), IdTok(op.chart, Sub(p, "chart"))>>
         \o (IF op.with
             THEN <<Kw("with", p, "with"), Tk("LParen", "", p, "lparen")>> \o PropsToks(op.props, p, 1)
                  \o <<Tk("RParen", "", p, "rparen")>>
             ELSE <<>>)
    [] OTHER -> <<Tk("Malformed", "", p, "malformed")>>

OpsToks(ops, p, i) == IF i > Len(ops) THEN <<>> ELSE OpToks(ops[i], SubI(p, "ops", i)) \o OpsToks(ops, p, i + 1)

TabToks(t, p) == <<IdTok(t.table, Sub(Sub(p, "source"), "table"))>> \o OpsToks(t.ops, p, 1)

StmtToks(s, p) ==
  CASE s.k = "Let" -> <<Kw("let", p, "kw"), IdTok(s.name, Sub(p, "name")), Tk("Assign", "", p, "assign")>>
                      \o ExprToks(s.x, Sub(p, "x"))
    [] s.k = "Tabular" -> TabToks(s, p)
    [] OTHER -> <<Tk("Malformed", "", p, "malformed")>>

\* A program is a sequence of items: statements and "Empty" (nothing between
\* two semicolons).  Statement paths count only real statements, as the
\* slice returned by Parse does.
RECURSIVE ProgToks(_, _, _)
ProgToks(items, i, n) ==
  IF i > Len(items) THEN <<>>
  ELSE (IF i > 1 THEN <<Tk("Semi", "", "", "semi")>> ELSE <<>>)
       \o (IF items[i].k = "Empty" THEN ProgToks(items, i + 1, n)
           ELSE StmtToks(items[i], ToString(n)) \o ProgToks(items, i + 1, n + 1))

Toks(items) == ProgToks(items, 1, 0)

Statements(items) == SelectSeq(items, LAMBDA s : s.k # "Empty")

Strip(toks) == [i \in DOMAIN toks |-> [k |-> toks[i].k, v |-> toks[i].v]]

---------------------------------------------------------------------------
(* C08: the tokens of a source are accounted for by the tree, in order.    *)
(* Align compares the significant tokens of a statement (kind, value) with *)
(* the print of its tree; the only tokens that may be absent from the      *)
(* print are a comma directly before the closing parenthesis of a call     *)
(* with arguments and a comma directly before `by` of a summarize with     *)
(* aggregates.  Operator names are compared up to the documented synonyms. *)

SynonymOf(v) == CASE v = "filter" -> "where" [] v = "order" -> "sort" [] v = "limit" -> "take" [] OTHER -> v
SameTok(r, m, afterPipe) ==
  /\ r.k = m.k
  /\ IF afterPipe /\ r.k = "Identifier" THEN SynonymOf(r.v) = m.v ELSE r.v = m.v
NoTok == Tk("", "", "", "")

RECURSIVE Align(_, _, _, _)
Align(rs, ms, afterPipe, prevM) ==
  IF ms = <<>> THEN rs = <<>>
  ELSE IF rs = <<>> THEN FALSE
  ELSE IF SameTok(rs[1], ms[1], afterPipe) THEN Align(Tail(rs), Tail(ms), rs[1].k = "Pipe", ms[1])
  ELSE /\ rs[1].k = "Comma"
       /\ ms[1].r \in {"crparen", "sby"}
       /\ ~(prevM.p = ms[1].p /\ prevM.r \in {"lparen", "kw"})
       /\ Len(rs) >= 2
       /\ SameTok(rs[2], ms[1], FALSE)
       /\ Align(Tail(Tail(rs)), Tail(ms), FALSE, ms[1])

RECURSIVE GroupsFrom(_, _, _)
GroupsFrom(ts, i, cur) ==
  IF i > Len(ts) THEN <<cur>>
  ELSE IF ts[i].k = "Semi" THEN <<cur>> \o GroupsFrom(ts, i + 1, <<>>)
  ELSE GroupsFrom(ts, i + 1, Append(cur, ts[i]))
NonEmptyGroups(ts) == SelectSeq(GroupsFrom(ts, 1, <<>>), LAMBDA g : g # <<>>)

\* toks: the significant tokens of the source; stmts: the statements Parse returned
Accounts(toks, stmts) ==
  LET gs == NonEmptyGroups(toks) IN
  /\ Len(gs) = Len(stmts)
  /\ \A i \in DOMAIN gs : Align(gs[i], StmtToks(stmts[i], ToString(i - 1)), FALSE, NoTok)

---------------------------------------------------------------------------
(* Properties of Toks used by C08 / C10                                    *)

\* the tokens of every node are contiguous: for every owner path that occurs,
\* the positions of tokens carrying exactly that path (the node's own parts)
\* lie inside the extent of the node; checked through the harness, which can
\* take path strings apart.

\* operator trees: well-formedness of the non-expression parts (defaults)
TermOK(t) ==
  /\ PrecedenceRef(t.x)
  /\ (~t.ascGiven => ~t.asc)                         \* default: descending
  /\ (~t.nullsGiven => t.nullsFirst = t.asc)         \* default: asc -> nulls first, desc -> nulls last
ColOK(c) == c.x = None \/ PrecedenceRef(c.x)

RECURSIVE TabOK(_)
OpOK(op) ==
  CASE op.k = "Count" -> TRUE
    [] op.k = "Where" -> PrecedenceRef(op.pred)
    [] op.k = "Sort" -> Len(op.terms) >= 1 /\ \A i \in DOMAIN op.terms : TermOK(op.terms[i])
    [] op.k = "Take" -> PrecedenceRef(op.n)
    [] op.k = "Top" -> PrecedenceRef(op.n) /\ TermOK(op.col)
    [] op.k = "Project" -> Len(op.cols) >= 1 /\ \A i \in DOMAIN op.cols : op.cols[i].name # None /\ ColOK(op.cols[i])
    [] op.k = "Extend" -> Len(op.cols) >= 1 /\ \A i \in DOMAIN op.cols : op.cols[i].x # None /\ ColOK(op.cols[i])
    [] op.k = "Summarize" -> /\ Len(op.cols) + Len(op.groupBy) >= 1
                             /\ (op.by <=> Len(op.groupBy) >= 1)
                             /\ \A i \in DOMAIN op.cols : op.cols[i].x # None /\ ColOK(op.cols[i])
                             /\ \A i \in DOMAIN op.groupBy : op.groupBy[i].x # None /\ ColOK(op.groupBy[i])
    [] op.k = "Join" -> /\ (op.flavor = None \/ (~op.flavor.quoted /\ op.flavor.name \in {"inner", "innerunique", "leftouter"}))
                        /\ TabOK(op.right)
                        /\ Len(op.conds) >= 1 /\ \A i \in DOMAIN op.conds : PrecedenceRef(op.conds[i])
    [] op.k = "As" -> TRUE
    [] op.k = "Render" -> (op.with <=> Len(op.props) >= 1) /\ \A i \in DOMAIN op.props : PrecedenceRef(op.props[i].value)
    [] OTHER -> FALSE
TabOK(t) == \A i \in DOMAIN t.ops : OpOK(t.ops[i])

StmtOK(s) ==
  CASE s.k = "Let" -> PrecedenceRef(s.x)
    [] s.k = "Tabular" -> TabOK(s)
    [] OTHER -> FALSE
=============================================================================
