----------------------------- MODULE TraceParse -----------------------------
(***************************************************************************)
(* Trace validation for the parser (code -> model).  Each line is one      *)
(* observed successful call of parser.Parse: the significant tokens of the *)
(* source (from parser.Scan) and the returned statements, projected onto   *)
(* the records of Grammar.tla.  Accepted iff                               *)
(*   accounted:  the tree accounts for every token, in order (C08), and    *)
(*   wellformed: the tree has the shape the grammar dictates (C07):        *)
(*               operand levels, defaults of sort terms, known join kinds. *)
(***************************************************************************)
EXTENDS Grammar, Json, IOUtils

Trace == ndJsonDeserialize(IOEnv.TRACE_FILE)

VARIABLE l

Verdict(rec) ==
  [id |-> rec.id,
   accounted |-> Accounts(rec.toks, rec.tree),
   wellformed |-> \A i \in DOMAIN rec.tree : StmtOK(rec.tree[i])]

TraceInit == l = 1
TraceNext ==
  /\ l <= Len(Trace)
  /\ PrintT("TV " \o ToJson(Verdict(Trace[l])))
  /\ l' = l + 1
TraceDone == TLCGet("stats").diameter - 1 = Len(Trace)
=============================================================================
