----------------------------- MODULE MultiReader -----------------------------
(***************************************************************************)
(* cmd/pql/main.go multiReadCloser and the line scanner in front of the    *)
(* command's loop, as a state machine (C16, "input could not be read       *)
(* completely", "nothing is ever dropped silently").                       *)
(*                                                                         *)
(* A source is what one FILE argument gives: its remaining symbols, and    *)
(* how it ends: "eof" (Read returns 0, EOF after the data, as os.File      *)
(* does), "eager" (the last data comes together with EOF, which io.Reader  *)
(* allows), "fail" (an error instead of EOF: a directory, an I/O error).   *)
(*                                                                         *)
(*   Read(cap)   one call of multiReadCloser.Read with a buffer of cap     *)
(*               symbols, following the loop of the code: ask the first    *)
(*               source; on EOF close and drop it; return data, or an      *)
(*               error, or go on with the next source; EOF only when no    *)
(*               source is left                                            *)
(*   Close       closes what is left                                       *)
(* The caller is the scanner: it calls Read until EOF or an error and      *)
(* cuts what it got into lines (a last partial line counts, also after an  *)
(* error).                                                                 *)
(*                                                                         *)
(* Checked for every sequence of up to MaxSources sources over a small     *)
(* alphabet and every sequence of buffer sizes: what was delivered is the  *)
(* concatenation of the sources up to the first failing one (ReaderRef =   *)
(* CliInput!Readable), an error surfaces exactly when a source fails, EOF  *)
(* comes only at the very end and stays, no source is read after it was    *)
(* closed, and after Close every source has been closed exactly once.      *)
(***************************************************************************)
EXTENDS Integers, Sequences, FiniteSets, TLC, Json

CONSTANTS MaxSources, MaxData, MaxCap,
          DropErrReset      \* TRUE: the code as it is; FALSE: without "err = nil" when data came with EOF (negative control)

Alphabet == {"x", "NL"}
Ends == {"eof", "eager", "fail"}

VARIABLES ch,          \* choice tree: the sources, <<data1, end1, data2, end2, ...>>, then "go"
          srcs,        \* remaining sources: sequence of [id, d, end]
          closed,      \* id -> number of Close calls
          got,         \* symbols delivered so far
          last,        \* result of the last Read: "none" | "data" | "eof" | "err"
          usedAfterClose, phase,   \* "choose" | "read" | "done" | "closed"
          caps         \* buffer sizes used (history, for the replay)

vars == <<ch, srcs, closed, got, last, usedAfterClose, phase, caps>>
view == <<ch, srcs, closed, got, last, usedAfterClose, phase>>

Datas == UNION {[1..n -> Alphabet] : n \in 0..MaxData}
NSources(c) == Len(c) \div 2

SourcesOf(c) == [i \in 1..NSources(c) |-> [id |-> i, d |-> c[2 * i - 1], end |-> c[2 * i]]]

Init ==
  /\ ch = <<>> /\ srcs = <<>> /\ closed = <<>> /\ got = <<>> /\ last = "none"
  /\ usedAfterClose = FALSE /\ phase = "choose" /\ caps = <<>>

Choose ==
  /\ phase = "choose"
  /\ \/ /\ Len(ch) % 2 = 0 /\ NSources(ch) < MaxSources
        /\ \E d \in Datas : ch' = Append(ch, d)
        /\ UNCHANGED <<srcs, closed, phase>>
     \/ /\ Len(ch) % 2 = 1
        /\ \E e \in Ends : ch' = Append(ch, e)
        /\ UNCHANGED <<srcs, closed, phase>>
     \/ /\ Len(ch) % 2 = 0 /\ NSources(ch) >= 1
        /\ ch' = Append(ch, "go")
        /\ srcs' = SourcesOf(ch)
        /\ closed' = [i \in 1..NSources(ch) |-> 0]
        /\ phase' = "read"
  /\ UNCHANGED <<got, last, usedAfterClose, caps>>

\* one call of a source's Read with a buffer of cap symbols: [n, data, e, rest]
SrcRead(s, cap) ==
  IF s.d = <<>> THEN
       [data |-> <<>>, e |-> IF s.end = "fail" THEN "ERR" ELSE "EOF", rest |-> s]
  ELSE LET n == IF Len(s.d) < cap THEN Len(s.d) ELSE cap
           rest == [s EXCEPT !.d = SubSeq(s.d, n + 1, Len(s.d))]
       IN [data |-> SubSeq(s.d, 1, n),
           e |-> IF rest.d = <<>> /\ s.end = "eager" THEN "EOF" ELSE "nil",
           rest |-> rest]

\* the loop of multiReadCloser.Read: returns [data, e, srcs, closed, bad]
RECURSIVE MRRead(_, _, _)
MRRead(ss, cl, cap) ==
  IF ss = <<>> THEN [data |-> <<>>, e |-> "EOF", srcs |-> ss, closed |-> cl, bad |-> FALSE]
  ELSE LET r == SrcRead(ss[1], cap)
           bad == cl[ss[1].id] > 0                             \* reading a source that was closed
           ss1 == IF r.e = "EOF" THEN Tail(ss) ELSE <<r.rest>> \o Tail(ss)
           cl1 == IF r.e = "EOF" THEN [cl EXCEPT ![ss[1].id] = @ + 1] ELSE cl
       IN IF r.data # <<>> \/ r.e # "EOF"
          THEN [data |-> r.data,
                e |-> IF r.e = "EOF" /\ ss1 # <<>> /\ DropErrReset THEN "nil" ELSE r.e,
                srcs |-> ss1, closed |-> cl1, bad |-> bad]
          ELSE LET q == MRRead(ss1, cl1, cap) IN [q EXCEPT !.bad = @ \/ bad]

Read ==
  /\ phase = "read"
  /\ \E cap \in 1..MaxCap :
       LET r == MRRead(srcs, closed, cap) IN
       /\ srcs' = r.srcs /\ closed' = r.closed
       /\ got' = got \o r.data
       /\ usedAfterClose' = (usedAfterClose \/ r.bad)
       /\ caps' = Append(caps, cap)
       /\ last' = (CASE r.e = "ERR" -> "err" [] r.e = "EOF" /\ r.data = <<>> -> "eof" [] OTHER -> "data")
       \* the scanner stops at an error, and at EOF (data that comes with EOF is kept)
       /\ phase' = IF r.e \in {"ERR", "EOF"} THEN "done" ELSE "read"
  /\ UNCHANGED ch

\* reading again after the end keeps returning EOF and delivers nothing
ReadAfterEnd ==
  /\ phase = "done" /\ last = "eof"
  /\ LET r == MRRead(srcs, closed, 1) IN r.data = <<>> /\ r.e = "EOF"
  /\ UNCHANGED vars

Close ==
  /\ phase = "done"
  /\ closed' = [i \in DOMAIN closed |-> IF \E j \in DOMAIN srcs : srcs[j].id = i THEN closed[i] + 1 ELSE closed[i]]
  /\ srcs' = <<>>
  /\ phase' = "closed"
  /\ UNCHANGED <<ch, got, last, usedAfterClose, caps>>

Next == Choose \/ Read \/ Close

---------------------------------------------------------------------------
(* reference: the concatenation up to the first failing source              *)

All == SourcesOf(SubSeq(ch, 1, 2 * NSources(ch)))
FirstFail == IF \E i \in DOMAIN All : All[i].end = "fail"
             THEN CHOOSE i \in DOMAIN All : All[i].end = "fail" /\ \A j \in 1..(i - 1) : All[j].end # "fail"
             ELSE 0
RECURSIVE CatD(_, _, _)
CatD(ss, i, upto) == IF i > upto THEN <<>> ELSE ss[i].d \o CatD(ss, i + 1, upto)
ReaderRef == IF FirstFail = 0 THEN [text |-> CatD(All, 1, Len(All)), err |-> FALSE]
             ELSE [text |-> CatD(All, 1, FirstFail), err |-> TRUE]       \* the failing source's data comes before its error

IsPrefixOf(a, b) == Len(a) <= Len(b) /\ SubSeq(b, 1, Len(a)) = a

\* while reading, nothing but a prefix of the reference has been delivered
DeliversPrefix == phase \in {"read", "done", "closed"} => IsPrefixOf(got, ReaderRef.text)
\* at the end everything was delivered, and the error surfaced exactly when a source fails
DeliversAll ==
  phase \in {"done", "closed"} =>
    /\ got = ReaderRef.text
    /\ (last = "err") = ReaderRef.err
NeverUsedAfterClose == ~usedAfterClose
ClosedOnce == phase = "closed" => \A i \in DOMAIN closed : closed[i] = 1
NotClosedTwice == \A i \in DOMAIN closed : closed[i] <= 1
EofStays == phase = "done" /\ last = "eof" => ENABLED ReadAfterEnd

\* the lines the scanner hands to the loop (a trailing piece without NL is a line too, also after an error)
RECURSIVE LinesFrom(_, _, _)
LinesFrom(txt, i, cur) ==
  IF i > Len(txt) THEN (IF cur = <<>> THEN <<>> ELSE <<cur>>)
  ELSE IF txt[i] = "NL" THEN <<cur>> \o LinesFrom(txt, i + 1, <<>>)
  ELSE LinesFrom(txt, i + 1, Append(cur, txt[i]))

EmitReads ==
  phase = "closed" =>
    PrintT("CASE " \o ToJson([sources |-> [i \in DOMAIN All |-> [d |-> All[i].d, end |-> All[i].end]], caps |-> caps,
                              text |-> got, err |-> last = "err", lines |-> LinesFrom(got, 1, <<>>),
                              closed |-> closed]))
=============================================================================
