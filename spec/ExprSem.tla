------------------------------- MODULE ExprSem -------------------------------
(***************************************************************************)
(* Values and the meaning of scalar expressions on both sides.             *)
(*                                                                         *)
(* Values: NULL, booleans, small integers, short strings, and opaque terms *)
(* [t |-> "opq", f, args]: an operator or function the specification does  *)
(* not interpret, applied to values.  Opaque terms are built by the same   *)
(* constructor on both sides, so "the same function applied to the same    *)
(* arguments in the same order" is exactly equality of values.             *)
(*                                                                         *)
(*   EvalP(e, row)  PQL expression tree (Grammar.tla) with PQL's grouping  *)
(*   EvalS(s, row)  SQL expression tree (Sql.tla) as read under a          *)
(*                  precedence table                                       *)
(* Both are defined from one set of value functions (SQL three-valued      *)
(* logic, NULL propagation), so that what is compared is grouping, operand *)
(* order, and the documented rewrites (== / != never NULL, =~ / !~ case    *)
(* insensitive, the built-in functions).                                   *)
(***************************************************************************)
EXTENDS Integers, Sequences, FiniteSets, TLC

Null == [t |-> "null"]
B(b) == [t |-> "bool", b |-> b]
I(n) == [t |-> "int", n |-> n]
S(s) == [t |-> "str", s |-> s]          \* s: sequence of characters from {"a", "A", "b", "-", ...}
Opq(f, args) == [t |-> "opq", f |-> f, args |-> args]

IsNullV(v) == v.t = "null"
IsBool(v) == v.t = "bool"
IsInt(v) == v.t = "int"
IsStr(v) == v.t = "str"

\* three-valued connectives (Kleene); operands that are not boolean/NULL stay opaque
Not3(a) == IF IsBool(a) THEN B(~a.b) ELSE IF IsNullV(a) THEN Null ELSE Opq("not", <<a>>)
And3(a, b) ==
  IF (IsBool(a) /\ ~a.b) \/ (IsBool(b) /\ ~b.b) THEN
       IF (IsBool(a) \/ IsNullV(a)) /\ (IsBool(b) \/ IsNullV(b)) THEN B(FALSE) ELSE Opq("and", <<a, b>>)
  ELSE IF IsBool(a) /\ IsBool(b) THEN B(TRUE)
  ELSE IF (IsBool(a) \/ IsNullV(a)) /\ (IsBool(b) \/ IsNullV(b)) THEN Null
  ELSE Opq("and", <<a, b>>)
Or3(a, b) ==
  IF (IsBool(a) \/ IsNullV(a)) /\ (IsBool(b) \/ IsNullV(b))
  THEN IF (IsBool(a) /\ a.b) \/ (IsBool(b) /\ b.b) THEN B(TRUE)
       ELSE IF IsBool(a) /\ IsBool(b) THEN B(FALSE) ELSE Null
  ELSE Opq("or", <<a, b>>)

\* SQL comparison: NULL if an operand is NULL; decided on values of one atomic type
Comparable(a, b) == (IsInt(a) /\ IsInt(b)) \/ (IsBool(a) /\ IsBool(b)) \/ (IsStr(a) /\ IsStr(b))
Cmp(op, a, b) ==
  IF IsNullV(a) \/ IsNullV(b) THEN Null
  ELSE IF op = "=" /\ Comparable(a, b) THEN B(a = b)
  ELSE IF op = "<>" THEN (IF Comparable(a, b) THEN B(a # b) ELSE Opq("not", <<Opq("=", <<a, b>>)>>))   \* x <> y is NOT (x = y)
  ELSE IF IsInt(a) /\ IsInt(b) THEN
         B(CASE op = "<" -> a.n < b.n [] op = "<=" -> a.n <= b.n [] op = ">" -> a.n > b.n [] op = ">=" -> a.n >= b.n)
  ELSE Opq(op, <<a, b>>)

Arith(op, a, b) ==
  IF IsNullV(a) \/ IsNullV(b) THEN Null
  ELSE IF IsInt(a) /\ IsInt(b) /\ op \in {"+", "-", "*"} THEN
         I(CASE op = "+" -> a.n + b.n [] op = "-" -> a.n - b.n [] op = "*" -> a.n * b.n)
  ELSE Opq(op, <<a, b>>)

Neg(a) == IF IsNullV(a) THEN Null ELSE IF IsInt(a) THEN I(0 - a.n) ELSE Opq("neg", <<a>>)
Pos(a) == IF IsNullV(a) \/ IsInt(a) THEN a ELSE Opq("pos", <<a>>)

Concat(a, b) ==
  IF IsNullV(a) \/ IsNullV(b) THEN Null
  ELSE IF IsStr(a) /\ IsStr(b) THEN S(a.s \o b.s) ELSE Opq("||", <<a, b>>)

LowerCh(c) == IF c = "A" THEN "a" ELSE IF c = "B" THEN "b" ELSE c
UpperCh(c) == IF c = "a" THEN "A" ELSE IF c = "b" THEN "B" ELSE c
Lower(a) == IF IsNullV(a) THEN Null ELSE IF IsStr(a) THEN S([i \in DOMAIN a.s |-> LowerCh(a.s[i])]) ELSE Opq("lower", <<a>>)
Upper(a) == IF IsNullV(a) THEN Null ELSE IF IsStr(a) THEN S([i \in DOMAIN a.s |-> UpperCh(a.s[i])]) ELSE Opq("upper", <<a>>)

IsNullF(a) == IF a.t = "opq" THEN Opq("isnull", <<a>>) ELSE B(IsNullV(a))

\* coalesce(a, FALSE): NULL becomes FALSE
\* values whose truth is certainly not TRUE: NULL, FALSE, and a conjunction with such an operand
\* (x AND NULL is NULL or FALSE whatever the uninterpreted x is)
RECURSIVE Falsy(_)
Falsy(a) ==
  IsNullV(a) \/ a = B(FALSE) \/ (a.t = "opq" /\ a.f = "and" /\ \E i \in DOMAIN a.args : Falsy(a.args[i]))
CoalesceF(a) ==
  IF Falsy(a) THEN B(FALSE) ELSE IF IsBool(a) THEN a
  ELSE IF a.t = "opq" /\ a.f = "coalesce" /\ Len(a.args) = 2 /\ a.args[2] = B(FALSE) THEN a   \* idempotent
  ELSE Opq("coalesce", <<a, B(FALSE)>>)
Coalesce2(a, b) == IF IsNullV(a) THEN b ELSE IF a.t = "opq" THEN Opq("coalesce", <<a, b>>) ELSE a

\* truth normal form (join conditions are compared by truth): a value that is certainly not TRUE is FALSE;
\* coalesce(x, FALSE) is true exactly when x is; a conjunction is true exactly when its operands are
RECURSIVE TruthNF(_)
TruthNF(a) ==
  IF Falsy(a) THEN B(FALSE)
  ELSE IF a.t = "opq" /\ a.f = "coalesce" /\ Len(a.args) = 2 /\ a.args[2] = B(FALSE) THEN TruthNF(a.args[1])
  ELSE IF a.t = "opq" /\ a.f = "and" THEN
       LET as == [i \in DOMAIN a.args |-> TruthNF(a.args[i])] IN
       IF \E i \in DOMAIN as : as[i] = B(FALSE) THEN B(FALSE) ELSE Opq("and", as)
  ELSE a


\* CASE WHEN w THEN a ELSE b END
CaseV(w, a, b) == IF IsBool(w) THEN (IF w.b THEN a ELSE b) ELSE IF IsNullV(w) THEN b ELSE Opq("case", <<w, a, b>>)

\* x IN (v1, ..., vn)
InV(x, vs) ==
  LET cs == [i \in DOMAIN vs |-> Cmp("=", x, vs[i])] IN
  IF \E i \in DOMAIN cs : cs[i] = B(TRUE) THEN B(TRUE)
  ELSE IF \A i \in DOMAIN cs : cs[i] = B(FALSE) THEN B(FALSE)
  ELSE IF \A i \in DOMAIN cs : IsBool(cs[i]) \/ IsNullV(cs[i]) THEN Null
  ELSE Opq("in", <<x>> \o vs)

IndexV(x, i) == Opq("[]", <<x, i>>)

\* a function passed through by name: ClickHouse's own spelling of an operator means what the operator means
\* (on both sides: PQL passes the name through, so it denotes the SQL function)
RECURSIVE CatAll(_, _), MultiIf(_, _)
CatAll(as, n) == IF n = 1 THEN as[1] ELSE Concat(CatAll(as, n - 1), as[n])
MultiIf(as, i) == IF i = Len(as) THEN as[i] ELSE CaseV(as[i], as[i + 1], MultiIf(as, i + 2))
NamedFn(fn, as) ==
  CASE fn \in {"concat", "CONCAT"} /\ Len(as) >= 2 -> CatAll(as, Len(as))
    [] fn \in {"if", "IF"} /\ Len(as) = 3 -> CaseV(as[1], as[2], as[3])
    [] fn = "multiIf" /\ Len(as) >= 3 /\ Len(as) % 2 = 1 -> MultiIf(as, 1)
    [] fn = "isNull" /\ Len(as) = 1 -> IsNullF(as[1])
    [] fn = "isNotNull" /\ Len(as) = 1 -> Not3(IsNullF(as[1]))
    [] fn \in {"ifNull", "coalesce", "COALESCE"} /\ Len(as) = 2 -> (IF as[2] = B(FALSE) THEN CoalesceF(as[1]) ELSE Coalesce2(as[1], as[2]))
    [] fn = "equals" /\ Len(as) = 2 -> Cmp("=", as[1], as[2])
    [] fn = "notEquals" /\ Len(as) = 2 -> Cmp("<>", as[1], as[2])
    [] fn \in {"lower", "LOWER"} /\ Len(as) = 1 -> Lower(as[1])
    [] fn \in {"upper", "UPPER"} /\ Len(as) = 1 -> Upper(as[1])
    [] fn \in {"now", "NOW"} /\ Len(as) = 0 -> Opq("now", <<>>)
    [] fn \in {"count", "COUNT"} /\ Len(as) = 0 -> Opq("count", <<>>)
    [] fn = "countIf" /\ Len(as) = 1 -> Opq("countif", <<as[1]>>)
    [] OTHER -> Opq("fn:" \o fn, as)

\* the documented meaning of the PQL comparison operators
PEq(a, b) == CoalesceF(Cmp("=", a, b))                  \* == never NULL
PNe(a, b) == CoalesceF(Cmp("<>", a, b))                 \* != never NULL
PCiEq(a, b) == Cmp("=", Lower(a), Lower(b))             \* =~ case-insensitive
PCiNe(a, b) == Cmp("<>", Lower(a), Lower(b))            \* !~ case-insensitive

---------------------------------------------------------------------------
(* rows: functions from column names to values; unknown names are opaque   *)

ColV(row, name) == IF name \in DOMAIN row THEN row[name] ELSE Opq("col", <<S(<<name>>)>>)

StrV(v) == S(<<v>>)                     \* string literal: its spelling as one symbol
NumV(v) == CASE v = "0" -> I(0) [] v = "1" -> I(1) [] v = "2" -> I(2) [] v = "3" -> I(3) [] v = "5" -> I(5)
             [] v = "7" -> I(7) [] v = "9" -> I(9) [] v = "10" -> I(10) [] OTHER -> Opq("num", <<S(<<v>>)>>)

RECURSIVE EvalP(_, _), EvalPs(_, _)
EvalPs(es, row) == [i \in DOMAIN es |-> EvalP(es[i], row)]

\* scope: function from names to PQL values (let bindings / parameters), consulted first
EvalP(e, row) ==
  CASE e.k = "QIdent" ->
         IF Len(e.parts) = 1 /\ ~e.parts[1].quoted
         THEN LET n == e.parts[1].name IN
              IF n \in DOMAIN row.scope THEN row.scope[n]
              ELSE IF n = "true" THEN B(TRUE) ELSE IF n = "false" THEN B(FALSE) ELSE IF n = "null" THEN Null
              ELSE ColV(row.cols, n)
         ELSE IF Len(e.parts) = 1 THEN ColV(row.cols, e.parts[1].name)
         ELSE IF Len(e.parts) = 2 /\ (e.parts[1].name \o "." \o e.parts[2].name) \in DOMAIN row.cols
              THEN row.cols[e.parts[1].name \o "." \o e.parts[2].name]        \* alias-qualified column of a join row
         ELSE Opq("qcol", [i \in DOMAIN e.parts |-> S(<<e.parts[i].name>>)])
    [] e.k = "Lit" -> IF e.kind = "Number" THEN NumV(e.value) ELSE StrV(e.value)
    [] e.k = "Paren" -> EvalP(e.x, row)
    [] e.k = "Un" -> IF e.op = "Minus" THEN Neg(EvalP(e.x, row)) ELSE Pos(EvalP(e.x, row))
    [] e.k = "Bin" ->
         LET a == EvalP(e.x, row) b == EvalP(e.y, row) IN
         (CASE e.op = "And" -> And3(a, b)
           [] e.op = "Or" -> Or3(a, b)
           [] e.op = "Eq" -> PEq(a, b)
           [] e.op = "NE" -> PNe(a, b)
           [] e.op = "CaseInsensitiveEq" -> PCiEq(a, b)
           [] e.op = "CaseInsensitiveNE" -> PCiNe(a, b)
           [] e.op = "LT" -> Cmp("<", a, b) [] e.op = "LE" -> Cmp("<=", a, b)
           [] e.op = "GT" -> Cmp(">", a, b) [] e.op = "GE" -> Cmp(">=", a, b)
           [] e.op = "Plus" -> Arith("+", a, b) [] e.op = "Minus" -> Arith("-", a, b)
           [] e.op = "Star" -> Arith("*", a, b) [] e.op = "Slash" -> Arith("/", a, b)
           [] e.op = "Mod" -> Arith("%", a, b))
    [] e.k = "In" -> InV(EvalP(e.x, row), EvalPs(e.vals, row))
    [] e.k = "Index" -> IndexV(EvalP(e.x, row), EvalP(e.index, row))
    [] e.k = "Call" ->
         LET as == EvalPs(e.args, row) IN
         CASE e.fn = "not" /\ Len(as) = 1 -> Not3(as[1])
           [] e.fn = "isnull" /\ Len(as) = 1 -> IsNullF(as[1])
           [] e.fn = "isnotnull" /\ Len(as) = 1 -> Not3(IsNullF(as[1]))
           [] e.fn \in {"iff", "iif"} /\ Len(as) = 3 -> CaseV(CoalesceF(as[1]), as[2], as[3])
           [] e.fn = "strcat" /\ Len(as) >= 1 -> LET RECURSIVE Cat(_) Cat(n) == IF n = 1 THEN as[1] ELSE Concat(Cat(n - 1), as[n]) IN Cat(Len(as))
           [] e.fn = "tolower" /\ Len(as) = 1 -> Lower(as[1])
           [] e.fn = "toupper" /\ Len(as) = 1 -> Upper(as[1])
           [] e.fn = "now" /\ Len(as) = 0 -> Opq("now", <<>>)
           [] e.fn = "count" /\ Len(as) = 0 -> Opq("count", <<>>)
           [] e.fn = "countif" /\ Len(as) = 1 -> Opq("countif", <<as[1]>>)
           [] OTHER -> NamedFn(e.fn, as)

RECURSIVE EvalS(_, _), EvalSs(_, _)
EvalSs(es, row) == [i \in DOMAIN es |-> EvalS(es[i], row)]

LowerName(f) == CASE f \in {"LOWER", "lower"} -> "lower" [] f \in {"UPPER", "upper"} -> "upper"
                  [] f \in {"COALESCE", "coalesce"} -> "coalesce" [] f \in {"COUNT", "count"} -> "count" [] OTHER -> f

\* placeholders: values of the verbatim parameter snippets
EvalS(s, row) ==
  CASE s.k = "Col" -> IF Len(s.parts) = 1 THEN ColV(row.cols, s.parts[1])
                      ELSE IF Len(s.parts) = 2 /\ (s.parts[1] \o "." \o s.parts[2]) \in DOMAIN row.cols
                           THEN row.cols[s.parts[1] \o "." \o s.parts[2]]
                      ELSE Opq("qcol", [i \in DOMAIN s.parts |-> S(<<s.parts[i]>>)])
    [] s.k = "Num" -> NumV(s.v)
    [] s.k = "Str" -> StrV(s.v)
    [] s.k = "Ph" -> IF s.v \in DOMAIN row.ph THEN row.ph[s.v] ELSE Opq("ph", <<S(<<s.v>>)>>)
    [] s.k = "Const" -> (CASE s.v = "TRUE" -> B(TRUE) [] s.v = "FALSE" -> B(FALSE) [] s.v = "NULL" -> Null
                           [] s.v = "CURRENT_TIMESTAMP" -> Opq("now", <<>>))
    [] s.k = "Un" -> LET a == EvalS(s.x, row) IN
                     (CASE s.op = "-" -> Neg(a) [] s.op = "+" -> Pos(a) [] s.op = "NOT" -> Not3(a)
                        [] s.op = "ISNULL" -> IsNullF(a) [] s.op = "ISNOTNULL" -> Not3(IsNullF(a)))
    [] s.k = "Bin" ->
         LET a == EvalS(s.x, row) b == EvalS(s.y, row) IN
         (CASE s.op = "AND" -> And3(a, b) [] s.op = "OR" -> Or3(a, b)
           [] s.op \in {"=", "<>", "<", "<=", ">", ">="} -> Cmp(s.op, a, b)
           [] s.op \in {"+", "-", "*", "/", "%"} -> Arith(s.op, a, b)
           [] s.op = "||" -> Concat(a, b))
    [] s.k = "In" -> InV(EvalS(s.x, row), EvalSs(s.vals, row))
    [] s.k = "Index" -> IndexV(EvalS(s.x, row), EvalS(s.index, row))
    [] s.k = "Case" -> CaseV(EvalS(s.w, row), EvalS(s.a, row), EvalS(s.b, row))
    [] s.k = "CountIf" -> Opq("countif", <<EvalS(s.x, row)>>)
    [] s.k = "Star" -> Opq("*", <<>>)
    [] s.k = "Call" ->
         NamedFn(s.fn, EvalSs(s.args, row))
=============================================================================
