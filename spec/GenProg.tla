------------------------------ MODULE GenProg ------------------------------
(***************************************************************************)
(* Program generators.  A family is a choice tree: Choices(ch) is the set  *)
(* of next choices after the prefix ch (empty = complete) and Build(ch)    *)
(* the program (sequence of items) of a complete choice vector.  TLC's     *)
(* reachable terminal states are exactly the programs of the family; the   *)
(* intermediate states spread the work over all workers.  With -simulate   *)
(* the same actions draw long random derivations (family "deep").          *)
(*                                                                         *)
(* Every terminal state is printed as a CASE line (tokens with owner paths *)
(* and the tree the grammar dictates) and replayed into parser.Parse,      *)
(* parser.Walk and pql.Compile by the harness.                             *)
(***************************************************************************)
EXTENDS Grammar, Json

CONSTANTS Family,   \* which generator
          Bound,    \* family-specific size bound
          DecoMode, \* "single" | "all": operand decorations of exprpairs
          BaseFamily, \* family whose programs the "corrupt" family edits
          EditMenu   \* how many tokens of TokenMenu the "ins" edit tries

VARIABLE ch
gvars == <<ch>>

---------------------------------------------------------------------------
(* building blocks                                                         *)

Tab(t, ops) == [k |-> "Tabular", table |-> Id(t), ops |-> ops]
Let(n, x) == [k |-> "Let", name |-> Id(n), x |-> x]
Empty == [k |-> "Empty"]
Where(e) == [k |-> "Where", pred |-> e]
Count == [k |-> "Count"]
Term(x, ag, a, ng, nf) == [x |-> x, ascGiven |-> ag, asc |-> a, nullsGiven |-> ng, nullsFirst |-> nf]
TermD(x) == Term(x, FALSE, FALSE, FALSE, FALSE)                 \* sort by x
Sort(ts) == [k |-> "Sort", terms |-> ts]
Take(n) == [k |-> "Take", n |-> n]
Top(n, t) == [k |-> "Top", n |-> n, col |-> t]
PCol(n, x) == [name |-> Id(n), x |-> x]
ECol(n, x) == [name |-> n, x |-> x]
Project(cs) == [k |-> "Project", cols |-> cs]
Extend(cs) == [k |-> "Extend", cols |-> cs]
Summarize(cs, gs, cby) == [k |-> "Summarize", cols |-> cs, by |-> gs # <<>>, groupBy |-> gs, cby |-> cby]
Join(fl, right, conds) == [k |-> "Join", flavor |-> fl, right |-> right, conds |-> conds]
As(n) == [k |-> "As", name |-> Id(n)]
Render(c, props) == [k |-> "Render", chart |-> Id(c), with |-> props # <<>>, props |-> props]
Prop(n, v) == [name |-> Id(n), value |-> v]

Last(s) == s[Len(s)]

---------------------------------------------------------------------------
(* family exprpairs: all pairs of binary-level operators, both groupings,  *)
(* decorated operands                                                      *)

Ops16 == BinOps \cup {"In"}
DecoKinds == {"plain", "neg", "idx", "call", "par", "num", "str"}
Deco(d, n) ==
  CASE d = "plain" -> Col(n)
    [] d = "neg" -> Un("Minus", Col(n))
    [] d = "idx" -> Index(Col(n), Num("1"))
    [] d = "call" -> Call("f", <<Col(n)>>)
    [] d = "par" -> Paren(Col(n))
    [] d = "num" -> Num("7")
    [] d = "str" -> Str("s")
DecoTriples ==
  IF DecoMode = "all" THEN DecoKinds \X DecoKinds \X DecoKinds
  ELSE {t \in DecoKinds \X DecoKinds \X DecoKinds :
          Cardinality({i \in 1..3 : t[i] # "plain"}) <= 1}

PairExpr(c) ==
  LET A == Deco(c[4][1], "a")  B == Deco(c[4][2], "b")  C == Deco(c[4][3], "c") IN
  IF c[3] = "L" THEN Mk(c[2], Mk(c[1], A, B), C) ELSE Mk(c[1], A, Mk(c[2], B, C))

PairsChoices(c) ==
  CASE Len(c) = 0 -> Ops16 [] Len(c) = 1 -> Ops16 [] Len(c) = 2 -> {"L", "R"}
    [] Len(c) = 3 -> DecoTriples [] OTHER -> {}

---------------------------------------------------------------------------
(* family exprtriples: three operators over one representative per level,  *)
(* all five groupings                                                      *)

Reps6 == {"Or", "And", "Eq", "Plus", "Star", "In", "CaseInsensitiveNE", "Minus", "Slash"}
TripleExpr(c) ==
  LET a == Col("a") b == Col("b") cc == Col("c") d == Col("d")
      o1 == c[1] o2 == c[2] o3 == c[3] IN
  CASE c[4] = 1 -> Mk(o3, Mk(o2, Mk(o1, a, b), cc), d)
    [] c[4] = 2 -> Mk(o3, Mk(o1, a, Mk(o2, b, cc)), d)
    [] c[4] = 3 -> Mk(o2, Mk(o1, a, b), Mk(o3, cc, d))
    [] c[4] = 4 -> Mk(o1, a, Mk(o3, Mk(o2, b, cc), d))
    [] c[4] = 5 -> Mk(o1, a, Mk(o2, b, Mk(o3, cc, d)))
TriplesChoices(c) == IF Len(c) < 3 THEN Reps6 ELSE IF Len(c) = 3 THEN 1..5 ELSE IF Len(c) = 4 THEN {"min", "all"} ELSE {}

---------------------------------------------------------------------------
(* family unary: nests of signs, indexing, calls, parentheses in operand   *)
(* contexts                                                                *)

Wrappers == {"neg", "pos", "idx", "call", "par", "not", "strcat", "strcat1", "lower", "none"}
ApplyW(w, e) ==
  CASE w = "neg" -> Un("Minus", e)
    [] w = "pos" -> Un("Plus", e)
    [] w = "idx" -> Index(e, Str("k"))
    [] w = "call" -> Call("f", <<e, Num("2")>>)
    [] w = "par" -> Paren(e)
    [] w = "not" -> Call("not", <<e>>)
    [] w = "strcat" -> Call("strcat", <<e, Str("z")>>)
    [] w = "strcat1" -> Call("strcat", <<e>>)            \* one argument: the operand itself
    [] w = "lower" -> Call("tolower", <<e>>)
    [] w = "none" -> e
UContexts == {"alone", "lmul", "rsub", "base", "insubj", "inlist", "arg", "index", "req"}
InCtx(cx, e) ==
  CASE cx = "alone" -> e
    [] cx = "lmul" -> Bin("Star", e, Col("b"))
    [] cx = "rsub" -> Bin("Minus", Col("b"), e)
    [] cx = "base" -> Index(e, Num("0"))
    [] cx = "insubj" -> InE(e, <<Num("1"), Num("2")>>)
    [] cx = "inlist" -> InE(Col("b"), <<Num("1"), e>>)
    [] cx = "arg" -> Call("g", <<e>>)
    [] cx = "index" -> Index(Col("b"), e)
    [] cx = "req" -> Bin("Eq", Col("b"), e)
UnaryExpr(c) == InCtx(c[4], ApplyW(c[3], ApplyW(c[2], ApplyW(c[1], Col("a")))))
UnaryChoices(c) == IF Len(c) < 3 THEN Wrappers ELSE IF Len(c) = 3 THEN UContexts ELSE IF Len(c) = 4 THEN {"min", "all"} ELSE {}

---------------------------------------------------------------------------
(* expression menu and positions                                           *)

ExprMenu == <<
  Col("a"), Num("1"), Str("s"), Un("Minus", Col("a")), Bin("Plus", Col("a"), Col("b")),
  Bin("Eq", Col("a"), Col("b")), Bin("Or", Bin("And", Col("a"), Col("b")), Col("c")),
  Call("f", <<Col("a"), Col("b")>>), Index(Col("a"), Num("1")), Paren(Col("a")),
  InE(Col("a"), <<Num("1"), Num("2")>>), Qual("x", "y"),
  [k |-> "QIdent", parts |-> <<QId("my col")>>], Call("not", <<Col("a")>>),
  Call("strcat", <<Col("a"), Str("-"), Col("b")>>), Call("now", <<>>),
  CallTC("f", <<Col("a")>>), Un("Minus", Num("5")), Num("0.5"),
  Bin("Star", Paren(Bin("Plus", Col("a"), Num("1"))), Col("b")),
  Call("iff", <<Bin("GT", Col("a"), Num("1")), Str("y"), Str("n")>>),
  [k |-> "QIdent", parts |-> <<Id("x"), QId("y z"), Id("w")>>],
  \* lists of every small length
  InE(Col("a"), <<Num("1")>>), InE(Col("a"), <<Num("1"), Num("2"), Col("b"), Str("s")>>),
  InE(Col("a"), <<Num("1"), Col("b"), Num("2")>>),
  Call("f", <<>>), Call("f", <<Col("a"), Col("b"), Num("1"), Str("s")>>), Call("f", <<Col("a"), Col("b"), Col("c")>>),
  Call("strcat", <<Col("a")>>), Call("strcat", <<Col("a"), Col("b"), Str("-"), Col("c")>>),
  Call("countif", <<Bin("GT", Col("a"), Num("1"))>>), Call("count", <<>>),
  Call("isnull", <<Col("a")>>), Call("isnotnull", <<Bin("Plus", Col("a"), Num("1"))>>),
  Call("tolower", <<Col("a")>>), Call("toupper", <<Call("strcat", <<Col("a"), Col("b")>>)>>),
  Bin("CaseInsensitiveEq", Col("a"), Str("A")), Bin("CaseInsensitiveNE", Call("tolower", <<Col("a")>>), Col("b")),
  Call("iif", <<Col("a"), Col("b"), Un("Minus", Col("c"))>>),
  Bin("And", Call("not", <<Col("a")>>), Call("isnull", <<Col("b")>>)),
  Bin("Eq", Call("not", <<Col("a")>>), Col("b")),
  Bin("Minus", Bin("Minus", Col("a"), Col("b")), Bin("Minus", Col("c"), Num("1"))),
  Call("f", <<Index(Col("a"), Num("1"))>>), Index(Call("f", <<Col("a")>>), Str("k")),
  InE(Index(Col("a"), Num("1")), <<Call("f", <<>>)>>),
  \* join conditions: equalities between columns of one side stay null-safe (entries from JoinOnlyFrom on are
  \* admitted in join-condition positions only)
  Call("not", <<Bin("Eq", Qual("$left", "a"), Qual("$left", "b"))>>),
  Bin("Eq", Bin("Eq", Qual("$right", "a"), Qual("$right", "b")), Qual("$left", "c")),
  Bin("NE", Bin("Eq", Qual("$right", "a"), Qual("$right", "b")), Col("true")),
  Bin("And", Bin("Eq", Qual("$left", "a"), Qual("$right", "a")), Bin("NE", Qual("$left", "b"), Qual("$right", "b"))),
  Bin("Eq", Qual("$right", "a"), Bin("Plus", Qual("$left", "a"), Num("1"))) >>
JoinOnlyFrom == Len(ExprMenu) - 4

Positions == {"where", "project", "extendNamed", "extendBare", "sumAgg", "sumAggBare", "sumKey", "sumKeyBare",
              "sort", "sort2", "take", "topN", "topBy", "joinOn", "joinOn2", "let", "renderVal",
              "arg", "index", "inlist", "paren", "joinRightWhere2", "joinRightExtend2"}

InPos(pos, e) ==
  CASE pos = "where" -> <<Tab("T", <<Where(e)>>)>>
    [] pos = "project" -> <<Tab("T", <<Project(<<PCol("p", e), PCol("q", None)>>)>>)>>
    [] pos = "extendNamed" -> <<Tab("T", <<Extend(<<ECol(Id("p"), e)>>)>>)>>
    [] pos = "extendBare" -> <<Tab("T", <<Extend(<<ECol(None, e), ECol(Id("q"), Col("b"))>>)>>)>>
    [] pos = "sumAgg" -> <<Tab("T", <<Summarize(<<ECol(Id("p"), e)>>, <<ECol(None, Col("b"))>>, FALSE)>>)>>
    [] pos = "sumAggBare" -> <<Tab("T", <<Summarize(<<ECol(None, e)>>, <<>>, FALSE)>>)>>
    [] pos = "sumKey" -> <<Tab("T", <<Summarize(<<ECol(None, Call("count", <<>>))>>, <<ECol(Id("p"), e)>>, TRUE)>>)>>
    [] pos = "sumKeyBare" -> <<Tab("T", <<Summarize(<<>>, <<ECol(None, e), ECol(None, Col("b"))>>, FALSE)>>)>>
    [] pos = "sort" -> <<Tab("T", <<Sort(<<Term(e, TRUE, TRUE, FALSE, TRUE)>>)>>)>>
    [] pos = "sort2" -> <<Tab("T", <<Sort(<<TermD(Col("b")), Term(e, TRUE, FALSE, TRUE, TRUE)>>)>>)>>
    [] pos = "take" -> <<Tab("T", <<Take(e)>>)>>
    [] pos = "topN" -> <<Tab("T", <<Top(e, TermD(Col("b")))>>)>>
    [] pos = "topBy" -> <<Tab("T", <<Top(Num("3"), Term(e, FALSE, FALSE, TRUE, FALSE))>>)>>
    [] pos = "joinOn" -> <<Tab("T", <<Join(None, Tab("B", <<>>), <<e>>)>>)>>
    [] pos = "joinOn2" -> <<Tab("T", <<Join(Id("inner"), Tab("B", <<Count>>), <<Col("k"), e>>)>>)>>
    [] pos = "let" -> <<Let("v", e), Tab("T", <<Where(Bin("Eq", Col("a"), Col("v")))>>)>>
    [] pos = "renderVal" -> <<Tab("T", <<Render("bar", <<Prop("title", e)>>)>>)>>
    [] pos = "arg" -> <<Tab("T", <<Where(Call("g", <<Num("1"), e>>))>>)>>
    [] pos = "index" -> <<Tab("T", <<Where(Index(Col("m"), e))>>)>>
    [] pos = "inlist" -> <<Tab("T", <<Where(InE(Col("m"), <<e, Num("9")>>))>>)>>
    [] pos = "paren" -> <<Tab("T", <<Where(Paren(e))>>)>>
    \* inside another pipeline's parentheses, followed by a further operator there
    [] pos = "joinRightWhere2" -> <<Tab("T", <<Join(Id("inner"), Tab("B", <<Where(e), Project(<<PCol("k", None), PCol("b", None)>>)>>),
                                                     <<Col("k")>>)>>)>>
    [] pos = "joinRightExtend2" -> <<Tab("T", <<Join(None, Tab("B", <<Extend(<<ECol(Id("p"), e)>>), Where(Bin("GT", Col("b"), Num("0")))>>),
                                                      <<Col("k")>>)>>)>>

\* row counts must not be non-integer literals (parse error by the documented rule)
PosAdmits(pos, e) ==
  ~(pos \in {"take", "topN"} /\ e.k = "Lit" /\ (e.kind = "String" \/ e.value = "0.5"))
JoinPositions2 == {"joinOn", "joinOn2"}

PositionsChoices(c) ==
  CASE Len(c) = 0 -> DOMAIN ExprMenu
    [] Len(c) = 1 -> {p \in Positions : PosAdmits(p, ExprMenu[c[1]]) /\ (c[1] >= JoinOnlyFrom => p \in JoinPositions2)}
    [] OTHER -> {}

---------------------------------------------------------------------------
(* operator menu (also the alphabet of family pipelines)                   *)

OpMenu == <<
  Count,
  Where(Bin("GT", Col("a"), Num("1"))),
  Where(Bin("And", Bin("Eq", Col("a"), Col("b")), Bin("NE", Col("c"), Str("s")))),
  Sort(<<TermD(Col("a"))>>),
  Sort(<<Term(Col("a"), TRUE, TRUE, FALSE, TRUE), Term(Col("b"), TRUE, FALSE, TRUE, TRUE)>>),
  Sort(<<Term(Col("a"), FALSE, FALSE, TRUE, TRUE), Term(Bin("Plus", Col("a"), Col("b")), TRUE, TRUE, TRUE, FALSE)>>),
  Take(Num("1")),
  Top(Num("2"), TermD(Col("a"))),
  Top(Num("1"), Term(Col("b"), TRUE, TRUE, TRUE, FALSE)),
  Project(<<PCol("a", None)>>),
  Project(<<PCol("x", Bin("Plus", Col("a"), Col("b"))), PCol("c", None), PCol("y", Str("k"))>>),
  Extend(<<ECol(Id("y"), Bin("Star", Col("a"), Num("2")))>>),
  Extend(<<ECol(None, Bin("Plus", Col("a"), Col("b"))), ECol(Id("z"), Col("c")), ECol(None, Col("a"))>>),
  Summarize(<<ECol(None, Call("count", <<>>))>>, <<>>, FALSE),
  Summarize(<<ECol(Id("n"), Call("count", <<>>)), ECol(Id("m"), Call("max", <<Col("a")>>))>>, <<ECol(None, Col("b"))>>, FALSE),
  Summarize(<<>>, <<ECol(Id("k"), Col("a")), ECol(None, Col("b"))>>, FALSE),
  Summarize(<<ECol(None, Call("sum", <<Col("a")>>))>>, <<ECol(None, Col("b"))>>, TRUE),
  Join(None, Tab("B", <<>>), <<Col("a")>>),
  Join(Id("leftouter"), Tab("B", <<Where(Bin("GT", Col("b"), Num("0")))>>),
       <<Bin("Eq", Qual("$left", "a"), Qual("$right", "b")), Col("c")>>),
  Join(Id("inner"), Tab("B", <<Join(None, Tab("C", <<Count>>), <<Col("a")>>), Take(Num("5"))>>), <<Col("a")>>),
  Join(Id("innerunique"), Tab("B", <<>>), <<Bin("Eq", Qual("$left", "a"), Qual("$right", "a")), Bin("NE", Col("v"), Str("bar"))>>),
  As("X"),
  Render("bar", <<>>),
  Render("line", <<Prop("title", Str("t")), Prop("kind", Col("stacked")), Prop("n", Num("1"))>>)
>>

PipelinesChoices(c) ==
  IF Len(c) < Bound /\ (c = <<>> \/ Last(c) # 0) THEN DOMAIN OpMenu \cup {0} ELSE {}
PipelineOps(c) == [i \in 1..(IF c # <<>> /\ Last(c) = 0 THEN Len(c) - 1 ELSE Len(c)) |-> OpMenu[c[i]]]

---------------------------------------------------------------------------
(* family operators: each operator with every combination of its optional  *)
(* parts (one operator after a table)                                      *)

AscOpts == {<<FALSE, FALSE>>, <<TRUE, TRUE>>, <<TRUE, FALSE>>}            \* given?, asc
NullOpts == {<<FALSE, FALSE>>, <<TRUE, TRUE>>, <<TRUE, FALSE>>}           \* given?, first
MkTerm(x, a, n) == Term(x, a[1], a[2], n[1], IF n[1] THEN n[2] ELSE a[2])

OpKinds == {"sort", "top", "project", "extend", "summarize", "join", "render", "simple"}
OperatorsChoices(c) ==
  IF c = <<>> THEN OpKinds
  ELSE CASE c[1] = "sort" -> (CASE Len(c) = 1 -> AscOpts [] Len(c) = 2 -> NullOpts [] Len(c) = 3 -> {0, 1, 2}
                                [] Len(c) = 4 -> AscOpts [] Len(c) = 5 -> NullOpts [] OTHER -> {})
        [] c[1] = "top" -> (CASE Len(c) = 1 -> AscOpts [] Len(c) = 2 -> NullOpts [] OTHER -> {})
        [] c[1] = "project" -> (IF Len(c) <= 3 THEN {"bare", "assign", "quoted", "end"} \ (IF Len(c) = 1 THEN {"end"} ELSE {})
                                ELSE {})
        [] c[1] = "extend" -> (IF Len(c) <= 3 THEN {"bare", "assign", "quoted", "call", "end"} \ (IF Len(c) = 1 THEN {"end"} ELSE {})
                               ELSE {})
        [] c[1] = "summarize" -> (CASE Len(c) = 1 -> 0..2 [] Len(c) = 2 -> (IF c[2] = 0 THEN 1..2 ELSE 0..2)
                                    [] Len(c) = 3 -> {"named", "bare", "mixed"}
                                    [] Len(c) = 4 -> (IF c[2] > 0 /\ c[3] > 0 THEN {FALSE, TRUE} ELSE {FALSE})
                                    [] OTHER -> {})
        [] c[1] = "join" -> (CASE Len(c) = 1 -> {"none", "inner", "innerunique", "leftouter"}
                               [] Len(c) = 2 -> {"bare", "pipe", "nested"}
                               [] Len(c) = 3 -> {"name", "explicit", "two", "extra", "three"}
                               [] OTHER -> {})
        [] c[1] = "render" -> (CASE Len(c) = 1 -> 0..3 [] Len(c) = 2 -> {"str", "ident", "num", "mixed"} [] OTHER -> {})
        [] c[1] = "simple" -> (CASE Len(c) = 1 -> {"count", "where", "take", "as", "asq"} [] OTHER -> {})

ProjCol(v, i) ==
  LET n == <<"p", "q", "r">>[i] IN
  CASE v = "bare" -> PCol(n, None)
    [] v = "assign" -> PCol(n, Bin("Plus", Col("a"), Num("1")))
    [] v = "quoted" -> [name |-> QId("col " \o n), x |-> Col("a")]
ExtCol(v, i) ==
  LET n == <<"p", "q", "r">>[i] IN
  CASE v = "bare" -> ECol(None, Col(n))
    [] v = "assign" -> ECol(Id(n), Bin("Star", Col("a"), Num("2")))
    [] v = "quoted" -> ECol(QId("col " \o n), Col("a"))
    [] v = "call" -> ECol(None, Call("f", <<Col(n)>>))
ColChoices(c) == SelectSeq(SubSeq(c, 2, Len(c)), LAMBDA v : v # "end")
SumCol(style, i, nm) ==
  LET e == IF nm = "agg" THEN <<Call("count", <<>>), Call("max", <<Col("a")>>)>>[i] ELSE <<Col("b"), Bin("Mod", Col("a"), Num("2"))>>[i]
      named == style = "named" \/ (style = "mixed" /\ i = 1)
  IN ECol(IF named THEN Id(nm \o ToString(i)) ELSE None, e)
JoinRight(v) ==
  CASE v = "bare" -> Tab("B", <<>>)
    [] v = "pipe" -> Tab("B", <<Where(Bin("GT", Col("b"), Num("0"))), Project(<<PCol("a", None), PCol("b", None)>>)>>)
    [] v = "nested" -> Tab("B", <<Join(Id("leftouter"), Tab("C", <<Take(Num("3"))>>), <<Col("a")>>), Count>>)
JoinConds(v) ==
  CASE v = "name" -> <<Col("a")>>
    [] v = "explicit" -> <<Bin("Eq", Qual("$left", "a"), Qual("$right", "b"))>>
    [] v = "two" -> <<Col("a"), Col("b")>>
    [] v = "extra" -> <<Col("a"), Bin("NE", Col("v"), Str("bar"))>>
    [] v = "three" -> <<Bin("Eq", Qual("$left", "a"), Qual("$right", "a")), Col("b"), Bin("GT", Qual("$left", "c"), Num("1"))>>
RenderProps(n, style) ==
  [i \in 1..n |->
     Prop(<<"title", "kind", "n">>[i],
          CASE style = "str" -> Str("t" \o ToString(i))
            [] style = "ident" -> Col("stacked")
            [] style = "num" -> Num(ToString(i))
            [] style = "mixed" -> <<Str("t"), Col("stacked"), Num("3")>>[i])]

OperatorOf(c) ==
  CASE c[1] = "sort" ->
         Sort(<<MkTerm(Col("a"), c[2], c[3])>>
              \o (IF c[4] >= 1 THEN <<MkTerm(Bin("Plus", Col("b"), Num("1")), c[5], c[6])>> ELSE <<>>)
              \o (IF c[4] = 2 THEN <<TermD(Col("c"))>> ELSE <<>>))
    [] c[1] = "top" -> Top(Num("3"), MkTerm(Col("a"), c[2], c[3]))
    [] c[1] = "project" -> Project([i \in DOMAIN ColChoices(c) |-> ProjCol(ColChoices(c)[i], i)])
    [] c[1] = "extend" -> Extend([i \in DOMAIN ColChoices(c) |-> ExtCol(ColChoices(c)[i], i)])
    [] c[1] = "summarize" -> Summarize([i \in 1..c[2] |-> SumCol(c[4], i, "agg")], [i \in 1..c[3] |-> SumCol(c[4], i, "key")], c[5])
    [] c[1] = "join" -> Join(IF c[2] = "none" THEN None ELSE Id(c[2]), JoinRight(c[3]), JoinConds(c[4]))
    [] c[1] = "render" -> Render("bar", RenderProps(c[2], c[3]))
    [] c[1] = "simple" -> (CASE c[2] = "count" -> Count
                             [] c[2] = "where" -> Where(Col("true"))
                             [] c[2] = "take" -> Take(Num("10"))
                             [] c[2] = "as" -> As("X")
                             [] c[2] = "asq" -> [k |-> "As", name |-> QId("my name")])

OperatorsComplete(c) ==
  /\ c # <<>>
  /\ CASE c[1] = "sort" -> Len(c) = 6 \/ (Len(c) = 4 /\ c[4] = 0)
       [] c[1] = "top" -> Len(c) = 3
       [] c[1] \in {"project", "extend"} -> Len(c) >= 2 /\ (Last(c) = "end" \/ Len(c) = 4)
       [] c[1] = "summarize" -> Len(c) = 5
       [] c[1] = "join" -> Len(c) = 4
       [] c[1] = "render" -> Len(c) = 3 \/ (Len(c) = 2 /\ c[2] = 0)
       [] c[1] = "simple" -> Len(c) = 2

---------------------------------------------------------------------------
(* family statements: lets, empty statements, several statements           *)

StmtMenu == <<
  Empty,
  Let("v", Num("1")),
  Let("w", Bin("Plus", Col("v"), Num("2"))),
  Let("v", Str("s")),
  Tab("T", <<Where(Bin("Eq", Col("a"), Col("v")))>>),
  Tab("U", <<Take(Col("w"))>>),
  Tab("T", <<>>)
>>
StatementsChoices(c) ==
  IF Len(c) < Bound /\ (c = <<>> \/ Last(c) # 0) THEN DOMAIN StmtMenu \cup {0} ELSE {}
StatementItems(c) == [i \in 1..(IF c # <<>> /\ Last(c) = 0 THEN Len(c) - 1 ELSE Len(c)) |-> StmtMenu[c[i]]]

---------------------------------------------------------------------------
(* family deep: random expression trees in prefix code (for -simulate)     *)

Labels == {"a", "b", "1", "s", "neg", "par", "idx", "call1", "call2", "in2", "not"} \cup BinOps
Arity(l) ==
  CASE l \in {"a", "b", "1", "s"} -> 0
    [] l \in {"neg", "par", "call1", "not"} -> 1
    [] l \in {"idx", "call2"} -> 2
    [] l = "in2" -> 3
    [] OTHER -> 2
RECURSIVE Need(_, _)
Need(c, i) == IF i > Len(c) THEN 1 ELSE Need(c, i + 1) - 1 + Arity(c[Len(c) + 1 - i])
\* open slots after prefix c
RECURSIVE Open(_)
Open(c) == IF c = <<>> THEN 1 ELSE Open(SubSeq(c, 1, Len(c) - 1)) - 1 + Arity(Last(c))
DeepChoices(c) ==
  IF Open(c) = 0 THEN {}
  ELSE IF Len(c) + Open(c) >= Bound THEN {"a", "b", "1", "s"} ELSE Labels

\* decode prefix code: returns <<tree, rest>>
RECURSIVE Decode(_)
Decode(c) ==
  LET l == Head(c) r == Tail(c) IN
  CASE l = "a" -> <<Col("a"), r>> [] l = "b" -> <<Col("b"), r>>
    [] l = "1" -> <<Num("1"), r>> [] l = "s" -> <<Str("s"), r>>
    [] l = "neg" -> LET x == Decode(r) IN <<Un("Minus", x[1]), x[2]>>
    [] l = "par" -> LET x == Decode(r) IN <<Paren(x[1]), x[2]>>
    [] l = "not" -> LET x == Decode(r) IN <<Call("not", <<x[1]>>), x[2]>>
    [] l = "call1" -> LET x == Decode(r) IN <<Call("f", <<x[1]>>), x[2]>>
    [] l = "idx" -> LET x == Decode(r) y == Decode(x[2]) IN <<Index(x[1], y[1]), y[2]>>
    [] l = "call2" -> LET x == Decode(r) y == Decode(x[2]) IN <<Call("strcat", <<x[1], y[1]>>), y[2]>>
    [] l = "in2" -> LET x == Decode(r) y == Decode(x[2]) z == Decode(y[2]) IN <<InE(x[1], <<y[1], z[1]>>), z[2]>>
    [] OTHER -> LET x == Decode(r) y == Decode(x[2]) IN <<Bin(l, x[1], y[1]), y[2]>>

---------------------------------------------------------------------------

(* family plant: one documented rule of Compile broken at one position and *)
(* depth, next to the same program without the violation (C13)             *)

Builtins1 == {"not", "isnull", "isnotnull", "tolower", "toupper", "countif"}
Builtins0 == {"now", "count"}
Builtins3 == {"iff", "iif"}
AllBuiltins == Builtins1 \cup Builtins0 \cup Builtins3 \cup {"strcat"}
ArityOK(b, n) ==
  CASE b \in Builtins1 -> n = 1 [] b \in Builtins0 -> n = 0 [] b \in Builtins3 -> n = 3 [] b = "strcat" -> n >= 1
ClosedArgs(n) == SubSeq(<<Num("1"), Str("s"), Num("2"), Num("3")>>, 1, n)

SlotPositions == {"where", "project", "extendNamed", "extendBare", "sumAgg", "sumKey", "sort", "take", "topBy",
                  "joinOn", "let", "joinRight", "joinRightOn"}
Depths == {"bare", "call", "paren", "index", "inlist", "bin", "deep"}
DepthsFor(pos) == IF pos = "let" THEN {"bare", "call", "paren", "bin"} ELSE Depths
AtDepth(d, X) ==
  CASE d = "bare" -> X
    [] d = "call" -> Call("f", <<X>>)
    [] d = "paren" -> Paren(X)
    [] d = "index" -> Index(Col("m"), X)
    [] d = "inlist" -> InE(Col("a"), <<Num("1"), X>>)
    [] d = "bin" -> Bin("Plus", Num("1"), X)
    [] d = "deep" -> Call("g", <<Bin("Star", Index(Col("m"), Paren(X)), Num("2"))>>)
InSlot(pos, e) ==
  CASE pos = "where" -> <<Tab("T", <<Where(e)>>)>>
    [] pos = "project" -> <<Tab("T", <<Project(<<PCol("p", e)>>)>>)>>
    [] pos = "extendNamed" -> <<Tab("T", <<Extend(<<ECol(Id("p"), e)>>)>>)>>
    [] pos = "extendBare" -> <<Tab("T", <<Extend(<<ECol(None, e)>>)>>)>>
    [] pos = "sumAgg" -> <<Tab("T", <<Summarize(<<ECol(Id("p"), e)>>, <<ECol(None, Col("b"))>>, FALSE)>>)>>
    [] pos = "sumKey" -> <<Tab("T", <<Summarize(<<ECol(None, Call("count", <<>>))>>, <<ECol(Id("p"), e)>>, FALSE)>>)>>
    [] pos = "sort" -> <<Tab("T", <<Sort(<<TermD(e)>>)>>)>>
    [] pos = "take" -> <<Tab("T", <<Take(e)>>)>>
    [] pos = "topBy" -> <<Tab("T", <<Top(Num("3"), TermD(e))>>)>>
    [] pos = "joinOn" -> <<Tab("T", <<Join(None, Tab("B", <<>>), <<Col("k"), e>>)>>)>>
    [] pos = "let" -> <<Let("v", e), Tab("T", <<Where(Bin("Eq", Col("a"), Col("v")))>>)>>
    [] pos = "joinRight" -> <<Tab("T", <<Join(Id("inner"), Tab("B", <<Where(e)>>), <<Col("k")>>)>>)>>
    [] pos = "joinRightOn" -> <<Tab("T", <<Join(None, Tab("B", <<Join(None, Tab("C", <<>>), <<Col("k"), e>>)>>), <<Col("k")>>)>>)>>

\* the operator that holds the slot, among other operators (Bound >= 1): a rule holds wherever the expression stands
Contexts == {"alone", "afterCount", "afterTake", "afterSort", "afterTop", "afterProject", "afterSummarize", "afterJoin", "afterAs",
             "afterWhere", "beforeCount", "beforeTake", "beforeSort", "beforeProject", "beforeSummarize", "beforeJoin", "beforeWhere"}
ContextsFor(d) == IF Bound >= 1 /\ d \in {"bare", "deep"} THEN Contexts ELSE {"alone"}
CtxOp(x) ==
  CASE x \in {"afterCount", "beforeCount"} -> Count
    [] x \in {"afterTake", "beforeTake"} -> Take(Num("5"))
    [] x \in {"afterSort", "beforeSort"} -> Sort(<<TermD(Col("a"))>>)
    [] x = "afterTop" -> Top(Num("2"), TermD(Col("a")))
    [] x \in {"afterProject", "beforeProject"} -> Project(<<PCol("a", None), PCol("b", None), PCol("k", None), PCol("m", None)>>)
    [] x \in {"afterSummarize", "beforeSummarize"} -> Summarize(<<ECol(Id("n"), Call("count", <<>>))>>, <<ECol(None, Col("a"))>>, FALSE)
    [] x \in {"afterJoin", "beforeJoin"} -> Join(None, Tab("D", <<>>), <<Col("k")>>)
    [] x = "afterAs" -> As("X")
    [] x \in {"afterWhere", "beforeWhere"} -> Where(Bin("GT", Col("a"), Num("1")))
IsAfter(x) == x \in {"afterCount", "afterTake", "afterSort", "afterTop", "afterProject", "afterSummarize", "afterJoin", "afterAs", "afterWhere"}
\* items end in the tabular statement that holds the slot
InContext(items, x) ==
  IF x = "alone" THEN items
  ELSE LET t == items[Len(items)]
           ops == IF IsAfter(x) THEN <<CtxOp(x)>> \o t.ops ELSE t.ops \o <<CtxOp(x)>>
       IN SubSeq(items, 1, Len(items) - 1) \o <<Tab(t.table.name, ops)>>

LRVariants == {"left", "right", "bareleft", "quoted", "twin"}
LRExpr(v) ==
  CASE v = "left" -> Bin("Eq", Qual("$left", "a"), Num("1"))
    [] v = "right" -> Bin("GT", Qual("$right", "b"), Num("1"))
    [] v = "bareleft" -> Col("$left")
    [] v = "quoted" -> [k |-> "QIdent", parts |-> <<QId("$left"), Id("a")>>]   \* quoted: an ordinary name
    [] v = "twin" -> Bin("Eq", Qual("t", "a"), Num("1"))
JoinPositions == {"joinOn", "joinRightOn"}

LetVariants == {"column", "qualified", "quoted", "later", "self", "literal", "earlier", "builtinconst", "expr"}
LetItems(v) ==
  LET q == Tab("T", <<Where(Bin("Eq", Col("a"), Col("v")))>>) IN
  CASE v = "column" -> <<Let("v", Col("a")), q>>
    [] v = "qualified" -> <<Let("u", Num("1")), Let("v", Qual("u", "x")), q>>
    [] v = "quoted" -> <<Let("u", Num("1")), Let("v", [k |-> "QIdent", parts |-> <<QId("u")>>]), q>>
    [] v = "later" -> <<Let("v", Col("w")), Let("w", Num("1")), q>>
    [] v = "self" -> <<Let("v", Bin("Plus", Col("v"), Num("1"))), q>>
    [] v = "literal" -> <<Let("v", Str("s")), q>>
    [] v = "earlier" -> <<Let("u", Num("1")), Let("v", Bin("Plus", Col("u"), Num("1"))), q>>
    [] v = "builtinconst" -> <<Let("v", Col("null")), q>>
    [] v = "expr" -> <<Let("v", Call("strcat", <<Str("a"), Call("f", <<Num("1")>>)>>)), q>>
LetGood == {"literal", "earlier", "builtinconst", "expr"}

QueryVariants == {"none", "onlylet", "onlyempty", "two", "twowithlet", "one", "oneletafter", "oneempties"}
QueryItems(v) ==
  CASE v = "none" -> <<>>
    [] v = "onlylet" -> <<Let("v", Num("1"))>>
    [] v = "onlyempty" -> <<Empty, Empty>>
    [] v = "two" -> <<Tab("T", <<>>), Tab("U", <<Count>>)>>
    [] v = "twowithlet" -> <<Tab("T", <<>>), Let("v", Num("1")), Tab("U", <<>>)>>
    [] v = "one" -> <<Tab("T", <<Count>>)>>
    [] v = "oneletafter" -> <<Tab("T", <<>>), Let("v", Col("nonsense"))>>
    [] v = "oneempties" -> <<Empty, Tab("T", <<>>), Empty, Empty>>
QueryGood == {"one", "oneletafter", "oneempties"}

JoinKinds == {"foo", "Inner", "left", "kind", "inner", "leftouter", "innerunique", "none"}
JoinKindGood == {"inner", "leftouter", "innerunique", "none"}

RowCounts == {"10", "1.5", "str", "1e3", "16", "neg", "col", "0.0", "0", "18446744073709551615", "18446744073709551616",
              "99999999999999999999999"}
RowCountExpr(v) ==
  CASE v = "str" -> Str("s") [] v = "neg" -> Un("Minus", Num("1")) [] v = "col" -> Col("n")
    [] OTHER -> Num(v)
RowCountGood == {"10", "16", "neg", "col", "0", "18446744073709551615", "18446744073709551616", "99999999999999999999999"}

PlantChoices(c) ==
  IF c = <<>> THEN {"arity", "leftright", "let", "queries", "joinkind", "rowcount"}
  ELSE CASE c[1] = "arity" -> (CASE Len(c) = 1 -> AllBuiltins [] Len(c) = 2 -> 0..4 [] Len(c) = 3 -> SlotPositions
                                 [] Len(c) = 4 -> DepthsFor(c[4]) [] Len(c) = 5 -> ContextsFor(c[5]) [] OTHER -> {})
        [] c[1] = "leftright" -> (CASE Len(c) = 1 -> LRVariants [] Len(c) = 2 -> SlotPositions \ {"let"}
                                    [] Len(c) = 3 -> Depths [] Len(c) = 4 -> ContextsFor(c[4]) [] OTHER -> {})
        [] c[1] = "let" -> (IF Len(c) = 1 THEN LetVariants ELSE {})
        [] c[1] = "queries" -> (IF Len(c) = 1 THEN QueryVariants ELSE {})
        [] c[1] = "joinkind" -> (IF Len(c) = 1 THEN JoinKinds ELSE {})
        [] c[1] = "rowcount" -> (CASE Len(c) = 1 -> {"take", "top"} [] Len(c) = 2 -> RowCounts [] OTHER -> {})

PlantItems(c) ==
  CASE c[1] = "arity" -> InContext(InSlot(c[4], Canon(AtDepth(c[5], Call(c[2], ClosedArgs(c[3]))))), c[6])
    [] c[1] = "leftright" -> InContext(InSlot(c[3], Canon(AtDepth(c[4], LRExpr(c[2])))), c[5])
    [] c[1] = "let" -> LetItems(c[2])
    [] c[1] = "queries" -> QueryItems(c[2])
    [] c[1] = "joinkind" -> <<Tab("T", <<Join(IF c[2] = "none" THEN None ELSE Id(c[2]), Tab("B", <<>>), <<Col("k")>>)>>)>>
    [] c[1] = "rowcount" -> <<Tab("T", <<IF c[2] = "take" THEN Take(RowCountExpr(c[3]))
                                          ELSE Top(RowCountExpr(c[3]), TermD(Col("a")))>>)>>

\* "ok": compiles; "err": must be rejected
PlantExpect(c) ==
  CASE c[1] = "arity" -> IF ArityOK(c[2], c[3]) THEN "ok" ELSE "err"
    [] c[1] = "leftright" -> IF c[2] \in {"twin", "quoted"} \/ c[3] \in JoinPositions THEN "ok" ELSE "err"
    [] c[1] = "let" -> IF c[2] \in LetGood THEN "ok" ELSE "err"
    [] c[1] = "queries" -> IF c[2] \in QueryGood THEN "ok" ELSE "err"
    [] c[1] = "joinkind" -> IF c[2] \in JoinKindGood THEN "ok" ELSE "err"
    [] c[1] = "rowcount" -> IF c[3] \in RowCountGood THEN "ok" ELSE "err"
\* planted violations that the documented grammar already rejects
PlantParses(c) ==
  IF (c[1] = "joinkind" /\ c[2] \notin JoinKindGood) \/ (c[1] = "rowcount" /\ c[3] \notin RowCountGood)
  THEN "err" ELSE "ok"

---------------------------------------------------------------------------
(* family stress: pathological nesting and error cascades (C12), tokens    *)
(* only                                                                    *)

RECURSIVE Rep(_, _)
Rep(ts, n) == IF n = 0 THEN <<>> ELSE ts \o Rep(ts, n - 1)
KV(k, v) == [k |-> k, v |-> v]
StressKinds == {"parens", "calls", "index", "signs", "joins", "open", "close", "brack", "pipes", "ops", "chain",
                "in", "commas", "semis", "lets", "mixed", "errtok", "inopen", "joinopen", "crossparen", "crossbrack", "crosscall",
                "extcalls", "sumcalls", "extin", "batchjoins", "extparens"}
StressDepths == IF Bound <= 1 THEN {1, 2, 3, 8} ELSE {1, 3, 17, 120, Bound}
StressChoices(c) == CASE Len(c) = 0 -> StressKinds [] Len(c) = 1 -> StressDepths [] OTHER -> {}
Head2 == <<KV("Identifier", "T"), KV("Pipe", ""), KV("Identifier", "where")>>
A == KV("Identifier", "a")
Nm(v) == KV("Number", v)
StressToks(c) ==
  LET n == c[2] IN
  CASE c[1] = "parens" -> Head2 \o Rep(<<KV("LParen", "")>>, n) \o <<A>> \o Rep(<<KV("RParen", "")>>, n)
    [] c[1] = "calls" -> Head2 \o Rep(<<KV("Identifier", "f"), KV("LParen", "")>>, n) \o <<A>> \o Rep(<<KV("RParen", "")>>, n)
    [] c[1] = "index" -> Head2 \o Rep(<<A, KV("LBracket", "")>>, n) \o <<KV("Number", "1")>> \o Rep(<<KV("RBracket", "")>>, n)
    [] c[1] = "signs" -> Head2 \o Rep(<<KV("Minus", ""), KV("LParen", "")>>, n) \o <<A>> \o Rep(<<KV("RParen", "")>>, n)
    [] c[1] = "joins" -> <<KV("Identifier", "T")>>
                         \o Rep(<<KV("Pipe", ""), KV("Identifier", "join"), KV("LParen", ""), KV("Identifier", "B")>>, n)
                         \o Rep(<<KV("RParen", ""), KV("Identifier", "on"), KV("Identifier", "k")>>, n)
    [] c[1] = "open" -> Head2 \o Rep(<<KV("LParen", "")>>, n)
    [] c[1] = "close" -> Head2 \o <<A>> \o Rep(<<KV("RParen", "")>>, n)
    [] c[1] = "brack" -> Head2 \o <<A>> \o Rep(<<KV("LBracket", "")>>, n)
    [] c[1] = "pipes" -> <<KV("Identifier", "T")>> \o Rep(<<KV("Pipe", "")>>, n)
    [] c[1] = "ops" -> Head2 \o <<A>> \o Rep(<<KV("Plus", "")>>, n)
    [] c[1] = "chain" -> Head2 \o <<A>> \o Rep(<<KV("Plus", ""), A, KV("And", ""), A, KV("Star", ""), A>>, n)
    [] c[1] = "in" -> Head2 \o Rep(<<A, KV("In", ""), KV("LParen", "")>>, n) \o <<A>> \o Rep(<<KV("RParen", "")>>, n)
    [] c[1] = "commas" -> <<KV("Identifier", "T"), KV("Pipe", ""), KV("Identifier", "project"), A>> \o Rep(<<KV("Comma", "")>>, n)
    [] c[1] = "semis" -> Rep(<<KV("Semi", "")>>, n) \o <<KV("Identifier", "T")>>
    [] c[1] = "lets" -> Rep(<<KV("Identifier", "let"), KV("Identifier", "v"), KV("Assign", ""), KV("Identifier", "v"), KV("Semi", "")>>, n)
                        \o <<KV("Identifier", "T")>>
    [] c[1] = "mixed" -> Head2 \o Rep(<<KV("LParen", ""), KV("LBracket", "")>>, n) \o <<A>> \o Rep(<<KV("RParen", ""), KV("RBracket", "")>>, n)
    [] c[1] = "crossparen" -> Head2 \o Rep(<<KV("LParen", "")>>, n) \o <<A>> \o Rep(<<KV("RBracket", "")>>, n)
    [] c[1] = "crossbrack" -> Head2 \o <<A>> \o Rep(<<KV("LBracket", "")>>, n) \o <<KV("Number", "1")>> \o Rep(<<KV("RParen", "")>>, n)
    [] c[1] = "crosscall" -> Head2 \o Rep(<<KV("Identifier", "f"), KV("LParen", ""), A, KV("LBracket", "")>>, n) \o <<KV("Number", "1")>>
                             \o Rep(<<KV("RParen", ""), KV("RBracket", "")>>, n)
    \* deep nests in the positions whose source text / span the compiler needs (unnamed columns, second query)
    [] c[1] = "extcalls" -> <<KV("Identifier", "T"), KV("Pipe", ""), KV("Identifier", "extend")>>
                            \o Rep(<<KV("Identifier", "f"), KV("LParen", "")>>, n) \o <<A>> \o Rep(<<KV("RParen", "")>>, n)
    [] c[1] = "sumcalls" -> <<KV("Identifier", "T"), KV("Pipe", ""), KV("Identifier", "summarize")>>
                            \o Rep(<<KV("Identifier", "f"), KV("LParen", "")>>, n) \o <<A>> \o Rep(<<KV("RParen", "")>>, n)
                            \o <<KV("By", ""), KV("Identifier", "k")>>
    [] c[1] = "extin" -> <<KV("Identifier", "T"), KV("Pipe", ""), KV("Identifier", "extend")>>
                         \o Rep(<<A, KV("In", ""), KV("LParen", "")>>, n) \o <<KV("Number", "1")>> \o Rep(<<KV("RParen", "")>>, n)
    [] c[1] = "extparens" -> <<KV("Identifier", "T"), KV("Pipe", ""), KV("Identifier", "extend")>>
                             \o Rep(<<KV("LParen", "")>>, n) \o <<A>> \o Rep(<<KV("RParen", "")>>, n)
    [] c[1] = "batchjoins" -> <<KV("Identifier", "Q"), KV("Semi", ""), KV("Identifier", "T")>>
                              \o Rep(<<KV("Pipe", ""), KV("Identifier", "join"), KV("LParen", ""), KV("Identifier", "B")>>, n)
                              \o Rep(<<KV("RParen", ""), KV("Identifier", "on"), KV("Identifier", "k")>>, n)
    [] c[1] = "errtok" -> Head2 \o Rep(<<KV("Raw", "!"), KV("Raw", "'x")>>, n)
    [] c[1] = "inopen" -> Head2 \o Rep(<<A, KV("In", "")>>, n)
    [] c[1] = "joinopen" -> <<KV("Identifier", "T")>> \o Rep(<<KV("Pipe", ""), KV("Identifier", "join"), KV("LParen", ""), KV("Identifier", "B")>>, n)

---------------------------------------------------------------------------

(* family scope: let bindings and parameters (C06)                         *)
(* ch = <<setup, value shape, use, position>>                              *)

ScopeSetups == {"single", "chain", "redef", "overparam", "paramonly", "paramchain", "after", "unused", "shadowlater", "collide"}
ValueShapes == {"lit", "neg", "bin", "call", "ref", "negref", "paren", "str", "const", "notcall", "isnullcall", "strcatcall", "iffcall", "index",
                "parenneg", "paren2neg", "paren2pos", "paren2lit"}
ShapesFor(setup) ==
  CASE setup \in {"chain", "shadowlater", "paramchain"} -> ValueShapes
    [] setup = "paramonly" -> {"lit"}
    [] OTHER -> ValueShapes \ {"ref", "negref"}
LetValue(shape) ==
  CASE shape = "lit" -> Num("3") [] shape = "neg" -> Un("Minus", Num("5")) [] shape = "bin" -> Bin("Plus", Num("1"), Num("2"))
    [] shape = "call" -> Call("f", <<Num("1")>>) [] shape = "ref" -> Col("m") [] shape = "negref" -> Un("Minus", Col("m"))
    [] shape = "paren" -> Paren(Bin("Minus", Num("1"), Num("2"))) [] shape = "str" -> Str("s") [] shape = "const" -> Col("true")
    [] shape = "notcall" -> Call("not", <<Col("true")>>) [] shape = "isnullcall" -> Call("isnull", <<Num("1")>>)
    [] shape = "strcatcall" -> Call("strcat", <<Str("a"), Str("b")>>)
    [] shape = "iffcall" -> Call("iff", <<Col("true"), Num("1"), Num("2")>>)
    [] shape = "index" -> Index(Call("f", <<Num("1")>>), Num("2"))
    \* the user's own parentheses around a signed or plain value, one and two levels
    [] shape = "parenneg" -> Paren(Un("Minus", Num("5")))
    [] shape = "paren2neg" -> Paren(Paren(Un("Minus", Num("5"))))
    [] shape = "paren2pos" -> Paren(Paren(Un("Plus", Num("5"))))
    [] shape = "paren2lit" -> Paren(Paren(Num("3")))
\* items before the query, items after it, parameters (name -> snippet)
SetupBefore(setup, shape) ==
  LET V == LetValue(shape) IN
  CASE setup \in {"single", "overparam", "paramchain", "after", "collide"} -> <<Let("n", V)>>
    [] setup = "chain" -> <<Let("m", Num("1")), Let("n", V)>>
    [] setup = "redef" -> <<Let("n", Num("9")), Let("n", V)>>
    [] setup = "paramonly" -> <<>>
    [] setup = "unused" -> <<Let("u", Num("5")), Let("n", V)>>
    [] setup = "shadowlater" -> <<Let("m", Num("1")), Let("n", V), Let("m", Num("2"))>>
SetupAfter(setup) == IF setup = "after" THEN <<Let("n", Num("9")), Let("q", Col("nonsense"))>> ELSE <<>>
SetupParams(setup) ==
  CASE setup \in {"overparam", "paramonly"} -> <<[n |-> "n", s |-> "$1"]>>
    [] setup = "paramchain" -> <<[n |-> "m", s |-> "$2"]>>
    [] setup = "collide" -> <<[n |-> "a", s |-> "$3"], [n |-> "true", s |-> "$4"]>>
    [] OTHER -> <<>>

ScopeUses == {"bare", "plus", "rsub", "neg", "mul", "idxbase", "idx", "insubj", "inlist", "arg", "eq", "cmpl", "notarg",
              "strcat", "paren", "quoted", "qual1", "qual2", "fname", "const"}
UseExpr(u) ==
  LET n == Col("n") IN
  CASE u = "bare" -> n [] u = "plus" -> Bin("Plus", n, Num("1")) [] u = "rsub" -> Bin("Minus", Num("1"), n)
    [] u = "neg" -> Un("Minus", n) [] u = "mul" -> Bin("Star", Num("2"), n) [] u = "idxbase" -> Index(n, Num("1"))
    [] u = "idx" -> Index(Col("b"), n) [] u = "insubj" -> InE(n, <<Num("1"), Num("2")>>)
    [] u = "inlist" -> InE(Col("a"), <<n, Num("1")>>) [] u = "arg" -> Call("f", <<n, Col("a")>>)
    [] u = "eq" -> Bin("Eq", Col("a"), n) [] u = "cmpl" -> Bin("LT", n, Col("a")) [] u = "notarg" -> Call("not", <<n>>)
    [] u = "strcat" -> Call("strcat", <<n, Str("z")>>) [] u = "paren" -> Bin("Star", Paren(n), Num("2"))
    [] u = "quoted" -> Bin("Plus", [k |-> "QIdent", parts |-> <<QId("n")>>], Num("1"))
    [] u = "qual1" -> Bin("Plus", Qual("x", "n"), Num("1")) [] u = "qual2" -> Bin("Plus", Qual("n", "x"), Num("1"))
    [] u = "fname" -> Call("n", <<Num("1")>>)
    [] u = "const" -> Bin("And", Col("true"), Bin("Eq", Col("a"), n))
ScopePositions == {"where", "project", "extendNamed", "sumAgg", "sort", "take", "topN", "topBy", "joinOn2", "joinNested", "arg"}
\* shorthand columns: the bound name written alone where a column may be named without `=`
BarePositions == {"projectBare", "extendBare", "sumKeyBare", "sumAggBare"}

ScopeChoices(c) ==
  CASE Len(c) = 0 -> ScopeSetups
    [] Len(c) = 1 -> ShapesFor(c[1])
    [] Len(c) = 2 -> ScopeUses
    [] Len(c) = 3 -> IF c[3] = "bare" THEN ScopePositions \cup BarePositions
                     ELSE IF c[3] \in {"neg", "eq"} \/ Bound >= 1 THEN ScopePositions ELSE {"where"}   \* Bound >= 1: every use at every position
    [] OTHER -> {}
ScopeQuery(c) ==
  LET e == Canon(UseExpr(c[3])) IN
  CASE c[4] = "where" -> Tab("T", <<Where(e)>>)
    [] c[4] = "project" -> Tab("T", <<Project(<<PCol("p", e), PCol("q", None)>>)>>)
    [] c[4] = "extendNamed" -> Tab("T", <<Extend(<<ECol(Id("p"), e)>>)>>)
    [] c[4] = "sumAgg" -> Tab("T", <<Summarize(<<ECol(Id("p"), Call("sum", <<e>>))>>, <<ECol(None, Col("b"))>>, FALSE)>>)
    [] c[4] = "sort" -> Tab("T", <<Sort(<<TermD(e)>>)>>)
    [] c[4] = "take" -> Tab("T", <<Take(e)>>)
    [] c[4] = "topN" -> Tab("T", <<Top(e, TermD(Col("b")))>>)
    [] c[4] = "topBy" -> Tab("T", <<Top(Num("3"), TermD(e))>>)
    [] c[4] = "joinOn2" -> Tab("T", <<Join(Id("inner"), Tab("B", <<>>), <<Col("k"), Canon(Bin("Eq", Qual("$left", "a"), e))>>)>>)
    [] c[4] = "joinNested" ->       \* the condition of a join inside another join's right-hand pipeline
         Tab("T", <<Join(Id("inner"), Tab("B", <<Join(Id("inner"), Tab("C", <<>>), <<Col("k"), Canon(Bin("Eq", Qual("$left", "a"), e))>>)>>),
                         <<Col("k")>>)>>)
    [] c[4] = "arg" -> Tab("T", <<Where(Call("g", <<Num("1"), e>>))>>)
    [] c[4] = "projectBare" -> Tab("T", <<Project(<<PCol("n", None), PCol("q", None)>>)>>)
    [] c[4] = "extendBare" -> Tab("T", <<Extend(<<ECol(None, e), ECol(Id("q"), Col("b"))>>)>>)
    [] c[4] = "sumKeyBare" -> Tab("T", <<Summarize(<<ECol(None, Call("count", <<>>))>>, <<ECol(None, e)>>, FALSE)>>)
    [] c[4] = "sumAggBare" -> Tab("T", <<Summarize(<<ECol(None, e)>>, <<ECol(None, Col("b"))>>, FALSE)>>)
\* the expression whose value is compared, per position (sum(e) for sumAgg, the whole condition for joinOn2)
ScopeExpr(c) ==
  LET e == Canon(UseExpr(c[3])) IN
  CASE c[4] = "sumAgg" -> Call("sum", <<e>>)
    [] c[4] \in {"joinOn2", "joinNested"} -> Canon(Bin("Eq", Qual("$left", "a"), e))
    [] OTHER -> e
ScopeItems(c) == SetupBefore(c[1], c[2]) \o <<ScopeQuery(c)>> \o SetupAfter(c[1])
\* the same program without the bindings that must not matter (unused, after the query)
ScopeAlt(c) ==
  CASE c[1] = "after" -> SetupBefore(c[1], c[2]) \o <<ScopeQuery(c)>>
    [] c[1] = "unused" -> <<Let("n", LetValue(c[2])), ScopeQuery(c)>>
    [] OTHER -> <<>>
ScopeSc(c) == [params |-> SetupParams(c[1]),
               lets |-> [i \in DOMAIN SetupBefore(c[1], c[2]) |->
                           [n |-> SetupBefore(c[1], c[2])[i].name.name, x |-> SetupBefore(c[1], c[2])[i].x]]]

---------------------------------------------------------------------------
(* family stmtseq: two or three statements, each well formed or broken in   *)
(* a way that could make a parser run on into the next one, separated by    *)
(* semicolons; tokens only (C15: Parse, SplitStatements and Scan must agree *)
(* on where statements end; C08 / C12)                                      *)

IdT(v) == KV("Identifier", v)
StmtTokMenu == <<
  <<IdT("let"), IdT("x"), KV("Assign", ""), Nm("1")>>,                                        \* let x = 1
  <<IdT("let"), IdT("x")>>,                                                                  \* let x
  <<IdT("let"), IdT("x"), KV("Assign", "")>>,                                                \* let x =
  <<IdT("let"), IdT("x"), KV("Assign", ""), IdT("f"), KV("LParen", ""), Nm("1")>>,            \* let x = f(1
  <<IdT("let"), IdT("x"), KV("Assign", ""), IdT("a"), KV("LBracket", ""), Nm("1")>>,          \* let x = a[1
  <<IdT("let"), KV("Assign", ""), Nm("5")>>,                                                 \* let = 5
  <<IdT("T"), KV("Pipe", ""), IdT("count")>>,                                                \* T | count
  <<IdT("T"), KV("Pipe", ""), IdT("where"), KV("LParen", ""), IdT("a")>>,                     \* T | where (a
  <<IdT("T"), KV("Pipe", ""), IdT("where"), IdT("a"), KV("RBracket", "")>>,                   \* T | where a]
  <<IdT("T"), KV("Pipe", ""), IdT("join"), KV("LParen", ""), IdT("B"), KV("Pipe", ""), IdT("count")>>,  \* T | join (B | count
  <<IdT("T"), KV("Pipe", ""), IdT("take"), Nm("5")>>,                                        \* T | take 5
  <<IdT("U")>>,                                                                              \* U
  <<>>,                                                                                      \* (empty)
  <<IdT("T"), KV("Pipe", ""), IdT("where"), IdT("a"), KV("Eq", ""), KV("Raw", "'x")>>          \* T | where a == 'x   (unterminated)
>>
StmtSeqChoices(c) ==
  CASE Len(c) \in {0, 1} -> DOMAIN StmtTokMenu
    [] Len(c) = 2 -> (DOMAIN StmtTokMenu) \cup {0}
    [] Len(c) = 3 -> {"semi", "none"}
    [] OTHER -> {}
StmtSeqToks(c) ==
  StmtTokMenu[c[1]] \o <<KV("Semi", "")>> \o StmtTokMenu[c[2]]
  \o (IF c[3] = 0 THEN <<>> ELSE <<KV("Semi", "")>> \o StmtTokMenu[c[3]])
  \o (IF c[4] = "semi" THEN <<KV("Semi", "")>> ELSE <<>>)

---------------------------------------------------------------------------
(* family wide: long lists in every list position (the nests of family     *)
(* stress are deep; these are wide, and they are valid programs)           *)

WideKinds == {"inlist", "callargs", "strcat", "joinconds", "projectcols", "extendcols", "sumaggs", "sumkeys", "sortterms",
              "renderprops", "lets", "pipeline", "statements"}
WideSizes == IF Bound >= 1 THEN {17, 33, 70} ELSE {9, 17, 33}
WideChoices(c) == CASE Len(c) = 0 -> WideKinds [] Len(c) = 1 -> WideSizes [] OTHER -> {}
Digit(i) == <<"1", "2", "3", "4", "5", "6", "7", "8", "9">>[(i % 9) + 1]
Nth(pre, i) == pre \o ToString(i)
WideItems(c) ==
  LET n == c[2]
      nums == [i \in 1..n |-> Num(Digit(i))]
  IN CASE c[1] = "inlist" -> <<Tab("T", <<Where(InE(Col("a"), nums))>>)>>
       [] c[1] = "callargs" -> <<Tab("T", <<Where(Call("f", nums))>>)>>
       [] c[1] = "strcat" -> <<Tab("T", <<Extend(<<ECol(Id("s"), Call("strcat", [i \in 1..n |-> IF i % 2 = 1 THEN Col("a") ELSE Str("x")]))>>)>>)>>
       [] c[1] = "joinconds" -> <<Tab("T", <<Join(Id("inner"), Tab("B", <<>>),
                                  <<Col("k")>> \o [i \in 1..n |-> Bin("Eq", Qual("$left", "a"), Num(Digit(i)))])>>)>>
       [] c[1] = "projectcols" -> <<Tab("T", <<Project([i \in 1..n |-> PCol(Nth("p", i), IF i % 2 = 1 THEN Col("a") ELSE None)])>>)>>
       [] c[1] = "extendcols" -> <<Tab("T", <<Extend([i \in 1..n |-> ECol(Id(Nth("p", i)), Bin("Plus", Col("a"), Num(Digit(i))))])>>)>>
       [] c[1] = "sumaggs" -> <<Tab("T", <<Summarize([i \in 1..n |-> ECol(Id(Nth("p", i)), Call("count", <<>>))], <<ECol(None, Col("b"))>>, FALSE)>>)>>
       [] c[1] = "sumkeys" -> <<Tab("T", <<Summarize(<<ECol(Id("n"), Call("count", <<>>))>>, [i \in 1..n |-> ECol(Id(Nth("k", i)), Col("a"))], FALSE)>>)>>
       [] c[1] = "sortterms" -> <<Tab("T", <<Sort([i \in 1..n |-> IF i % 2 = 1 THEN TermD(Col("a")) ELSE Term(Col("b"), TRUE, TRUE, TRUE, FALSE)])>>)>>
       [] c[1] = "renderprops" -> <<Tab("T", <<Render("bar", [i \in 1..n |-> Prop(Nth("p", i), Num(Digit(i)))])>>)>>
       [] c[1] = "lets" -> [i \in 1..n |-> Let(Nth("v", i), Num(Digit(i)))] \o <<Tab("T", <<Where(Bin("Eq", Col("a"), Col(Nth("v", n))))>>)>>
       [] c[1] = "pipeline" -> <<Tab("T", [i \in 1..n |-> IF i % 3 = 1 THEN Where(Bin("GT", Col("a"), Num(Digit(i))))
                                                           ELSE IF i % 3 = 2 THEN Extend(<<ECol(Id(Nth("p", i)), Col("a"))>>)
                                                           ELSE Sort(<<TermD(Col("a"))>>)])>>
       [] c[1] = "statements" -> [i \in 1..n |-> IF i = n THEN Tab("T", <<Count>>) ELSE Empty]

---------------------------------------------------------------------------
(* family groups: an operand followed by two or three bracketed / dotted    *)
(* groups, each well formed or with junk inside, tokens only (C08: whatever *)
(* the parser accepts must be accounted for; an error found in an earlier   *)
(* group must not be forgotten because a later group is fine)               *)

GroupMenu == <<
  <<KV("LBracket", ""), Nm("0"), KV("RBracket", "")>>,                       \* [0]
  <<KV("LBracket", ""), Nm("0"), Nm("1"), KV("RBracket", "")>>,              \* [0 1]
  <<KV("LBracket", ""), KV("RBracket", "")>>,                                \* []
  <<KV("LBracket", ""), Nm("0"), KV("Plus", ""), KV("RBracket", "")>>,       \* [0 +]
  <<KV("LParen", ""), Nm("1"), KV("RParen", "")>>,                           \* (1)
  <<KV("LParen", ""), Nm("1"), Nm("2"), KV("RParen", "")>>,                  \* (1 2)
  <<KV("LParen", ""), KV("RParen", "")>>,                                    \* ()
  <<KV("LParen", ""), Nm("1"), KV("Comma", ""), KV("RParen", "")>>,          \* (1,)
  <<KV("Dot", ""), KV("Identifier", "b")>>,                                  \* .b
  <<KV("Dot", "")>>,                                                         \* .
  <<KV("In", ""), KV("LParen", ""), Nm("1"), KV("RParen", "")>>,             \* in (1)
  <<KV("In", ""), KV("LParen", ""), Nm("1"), Nm("2"), KV("RParen", "")>>     \* in (1 2)
>>
GroupHosts == {"where", "call", "project", "sort", "joinon"}
GroupsChoices(c) ==
  CASE Len(c) = 0 -> GroupHosts
    [] Len(c) \in {1, 2} -> DOMAIN GroupMenu
    [] Len(c) = 3 -> (DOMAIN GroupMenu) \cup {0}          \* 0: no third group
    [] OTHER -> {}
GroupsToks(c) ==
  LET gs == GroupMenu[c[2]] \o GroupMenu[c[3]] \o (IF c[4] = 0 THEN <<>> ELSE GroupMenu[c[4]])
      T == <<KV("Identifier", "T"), KV("Pipe", "")>>
  IN CASE c[1] = "where" -> T \o <<KV("Identifier", "where"), A>> \o gs \o <<KV("GT", ""), Nm("0")>>
       [] c[1] = "call" -> T \o <<KV("Identifier", "where"), KV("Identifier", "f"), KV("LParen", ""), A>> \o gs \o <<KV("RParen", "")>>
       [] c[1] = "project" -> T \o <<KV("Identifier", "project"), KV("Identifier", "p"), KV("Assign", ""), A>> \o gs
                              \o <<KV("Comma", ""), KV("Identifier", "q")>>
       [] c[1] = "sort" -> T \o <<KV("Identifier", "sort"), KV("By", ""), A>> \o gs \o <<KV("Identifier", "asc")>>
       [] c[1] = "joinon" -> T \o <<KV("Identifier", "join"), KV("LParen", ""), KV("Identifier", "B"), KV("RParen", ""),
                                    KV("Identifier", "on"), KV("Identifier", "k"), KV("Comma", ""), A>> \o gs

---------------------------------------------------------------------------

\* redundant parentheses around every operand (C01: they only change grouping)
RECURSIVE ParenAll(_)
PA(e) == IF e.k \in {"QIdent", "Lit", "Paren"} THEN ParenAll(e) ELSE Paren(ParenAll(e))
ParenAll(e) ==
  CASE e.k = "Bin" -> [e EXCEPT !.x = PA(e.x), !.y = PA(e.y)]
    [] e.k = "In" -> [e EXCEPT !.x = PA(e.x), !.vals = [i \in DOMAIN e.vals |-> PA(e.vals[i])]]
    [] e.k = "Un" -> [e EXCEPT !.x = PA(e.x)]
    [] e.k = "Index" -> [e EXCEPT !.x = PA(e.x), !.index = PA(e.index)]
    [] e.k = "Paren" -> [e EXCEPT !.x = ParenAll(e.x)]
    [] e.k = "Call" -> [e EXCEPT !.args = [i \in DOMAIN e.args |-> PA(e.args[i])]]
    [] OTHER -> e
Styled(style, e) == IF style = "all" THEN Paren(Canon(ParenAll(e))) ELSE Canon(e)

\* the designated expression of the expression families and where it sits
ExprFamilies == {"exprpairs", "exprtriples", "unary", "positions", "deep", "scope"}
ExprOf(fam, c) ==
  CASE fam = "exprpairs" -> Canon(PairExpr(c))
    [] fam = "exprtriples" -> Styled(c[5], TripleExpr(c))
    [] fam = "unary" -> Styled(c[5], UnaryExpr(c))
    [] fam = "positions" -> Canon(ExprMenu[c[1]])
    [] fam = "deep" -> Canon(Decode(c)[1])
    [] fam = "scope" -> ScopeExpr(c)
PosOf(fam, c) ==
  CASE fam = "unary" -> "extendNamed" [] fam = "positions" -> c[2] [] fam = "scope" -> c[4] [] OTHER -> "where"

ChoicesOf(fam, c) ==
  CASE fam = "exprpairs" -> PairsChoices(c)
    [] fam = "exprtriples" -> TriplesChoices(c)
    [] fam = "unary" -> UnaryChoices(c)
    [] fam = "positions" -> PositionsChoices(c)
    [] fam = "pipelines" -> PipelinesChoices(c)
    [] fam = "operators" -> (IF OperatorsComplete(c) THEN {} ELSE OperatorsChoices(c))
    [] fam = "statements" -> StatementsChoices(c)
    [] fam = "deep" -> DeepChoices(c)
    [] fam = "plant" -> PlantChoices(c)
    [] fam = "stress" -> StressChoices(c)
    [] fam = "groups" -> GroupsChoices(c)
    [] fam = "wide" -> WideChoices(c)
    [] fam = "stmtseq" -> StmtSeqChoices(c)
    [] fam = "scope" -> ScopeChoices(c)

BuildOf(fam, c) ==
  CASE fam = "exprpairs" -> <<Tab("T", <<Where(Canon(PairExpr(c)))>>)>>
    [] fam = "exprtriples" -> <<Tab("T", <<Where(ExprOf(fam, c))>>)>>
    [] fam = "unary" -> <<Tab("T", <<Extend(<<ECol(Id("r"), ExprOf(fam, c))>>)>>)>>
    [] fam = "positions" -> InPos(c[2], Canon(ExprMenu[c[1]]))
    [] fam = "pipelines" -> <<Tab("T", PipelineOps(c))>>
    [] fam = "operators" -> <<Tab("T", <<OperatorOf(c)>>)>>
    [] fam = "statements" -> StatementItems(c)
    [] fam = "deep" -> <<Tab("T", <<Where(Canon(Decode(c)[1]))>>)>>
    [] fam = "plant" -> PlantItems(c)
    [] fam = "scope" -> ScopeItems(c)
    [] fam = "wide" -> WideItems(c)

\* does every program of the family compile (no documented rule broken)?
CompilesOf(fam, c) ==
  CASE fam = "positions" -> IF c[2] = "let" THEN "open" ELSE "ok"
    [] fam = "statements" -> "open"
    [] fam = "plant" -> PlantExpect(c)
    [] OTHER -> "ok"

---------------------------------------------------------------------------
(* family corrupt: every single token edit of every program of BaseFamily  *)

RECURSIVE BaseLenFrom(_, _)
BaseLenFrom(c, n) ==
  IF n > Len(c) THEN 0
  ELSE IF ChoicesOf(BaseFamily, SubSeq(c, 1, n)) = {} THEN n ELSE BaseLenFrom(c, n + 1)
BaseLen(c) == BaseLenFrom(c, 0)     \* 0: the base part is not complete yet (no family completes at <<>>)

TokenMenu == <<
  [k |-> "Comma", v |-> ""], [k |-> "Dot", v |-> ""], [k |-> "RParen", v |-> ""], [k |-> "Pipe", v |-> ""],
  [k |-> "LParen", v |-> ""], [k |-> "Identifier", v |-> "x"], [k |-> "Raw", v |-> "!"], [k |-> "By", v |-> ""],
  [k |-> "LBracket", v |-> ""], [k |-> "RBracket", v |-> ""], [k |-> "Plus", v |-> ""], [k |-> "Eq", v |-> ""],
  [k |-> "Assign", v |-> ""], [k |-> "And", v |-> ""], [k |-> "In", v |-> ""],
  [k |-> "Number", v |-> "1"], [k |-> "String", v |-> "s"], [k |-> "Semi", v |-> ""],
  [k |-> "Raw", v |-> "'abc"], [k |-> "Raw", v |-> "0x"],
  [k |-> "Raw", v |-> "@"], [k |-> "Raw", v |-> "`q"] >>

EditKinds == {"del", "dup", "swap", "trunc", "ins"}
CorruptChoices(c) ==
  LET bl == BaseLen(c) IN
  IF bl = 0 THEN ChoicesOf(BaseFamily, c)
  ELSE LET n == Len(Toks(BuildOf(BaseFamily, SubSeq(c, 1, bl))))
           e == SubSeq(c, bl + 1, Len(c))
       IN CASE Len(e) = 0 -> EditKinds
            [] Len(e) = 1 -> (CASE e[1] \in {"del", "dup"} -> 1..n
                                [] e[1] \in {"swap", "trunc"} -> 1..(n - 1)
                                [] e[1] = "ins" -> 0..n)
            [] Len(e) = 2 -> (IF e[1] = "ins" THEN 1..EditMenu ELSE {})
            [] OTHER -> {}

CorruptToks(c) ==
  LET bl == BaseLen(c)
      ts == Strip(Toks(BuildOf(BaseFamily, SubSeq(c, 1, bl))))
      e == SubSeq(c, bl + 1, Len(c))
      n == Len(ts)
      i == IF Len(e) >= 2 THEN e[2] ELSE 0
  IN IF Len(e) < 2 THEN ts      \* no position to edit (empty or one-token base): the base itself
     ELSE
     CASE e[1] = "del" -> SubSeq(ts, 1, i - 1) \o SubSeq(ts, i + 1, n)
       [] e[1] = "dup" -> SubSeq(ts, 1, i) \o SubSeq(ts, i, n)
       [] e[1] = "swap" -> SubSeq(ts, 1, i - 1) \o <<ts[i + 1], ts[i]>> \o SubSeq(ts, i + 2, n)
       [] e[1] = "trunc" -> SubSeq(ts, 1, i)
       [] e[1] = "ins" -> SubSeq(ts, 1, i) \o <<TokenMenu[e[3]]>> \o SubSeq(ts, i + 1, n)

---------------------------------------------------------------------------

Choices(c) == IF Family = "corrupt" THEN CorruptChoices(c) ELSE ChoicesOf(Family, c)
Complete(c) == Choices(c) = {}

Init == ch = <<>>
Next == \E x \in Choices(ch) : ch' = Append(ch, x)
Spec == Init /\ [][Next]_gvars

---------------------------------------------------------------------------

TreeFamilies == {"exprpairs", "exprtriples", "unary", "positions", "pipelines", "operators", "statements", "deep", "plant", "scope", "wide"}

\* generated trees are exactly the trees the grammar dictates for their tokens
GeneratedWellFormed ==
  (Complete(ch) /\ Family \in TreeFamilies /\ (Family = "plant" => PlantParses(ch) = "ok")) =>
     \A i \in DOMAIN Statements(BuildOf(Family, ch)) : StmtOK(Statements(BuildOf(Family, ch))[i])

EmitCase ==
  Complete(ch) =>
    IF Family \in TreeFamilies
    THEN LET items == BuildOf(Family, ch) IN
         PrintT("CASE " \o ToJson([fam |-> Family, ch |-> ch, toks |-> Toks(items), tree |-> Statements(items),
                                    xp |-> IF Family = "plant" THEN PlantParses(ch) ELSE "ok",
                                    xc |-> CompilesOf(Family, ch),
                                    ex |-> IF Family \in ExprFamilies
                                           THEN [pos |-> PosOf(Family, ch), e |-> ExprOf(Family, ch)]
                                           ELSE [pos |-> "", e |-> None],
                                    sc |-> IF Family = "scope" THEN ScopeSc(ch) ELSE [params |-> <<>>, lets |-> <<>>],
                                    alt |-> IF Family = "scope" THEN Toks(ScopeAlt(ch)) ELSE <<>>]))
    ELSE PrintT("CASE " \o ToJson([fam |-> Family, ch |-> ch,
                                    toks |-> IF Family = "corrupt" THEN CorruptToks(ch)
                                            ELSE IF Family = "groups" THEN GroupsToks(ch)
                                            ELSE IF Family = "stmtseq" THEN StmtSeqToks(ch) ELSE StressToks(ch),
                                    xp |-> "open", xc |-> "open"]))
=============================================================================
